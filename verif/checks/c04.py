"""C04 - sampler results do not depend on worker scheduling or parallelism.

The harness owns the schedule: verif.schedclient.SchedClient executes outstanding tasks in a
generated order and answers is_ready from generated data.  Oracle: differential against the
sequential run (native client, max_parallel_batches=1) plus invariants over the client's trace.
"""

import numpy as np
from hypothesis import strategies as st

from .. import models, schedclient
from ..core import CaseResult, Part, Violation, must_not_raise, time_limit
from ..runner import Check

P = 'C04'


def _cont(desc):
    """SMC needs prior densities: replace the discrete prior by a continuous one."""
    return dict(desc, priors=['uniform' if p == 'randint' else p for p in desc['priors']])


def strat_rejection(tier):
    obj = st.one_of(st.tuples(st.just('threshold'), st.integers(8, 70)),
                    st.tuples(st.just('threshold'), st.integers(8, 70)),
                    st.tuples(st.just('quantile'), st.sampled_from([0.5, 0.25, 0.1, 0.3])),
                    st.tuples(st.just('n_sim'), st.integers(10, 80)))
    return st.fixed_dictionaries({
        'sampler': st.just('rejection'),
        'model': models.model_desc().map(lambda d: dict(d, infcut=None)),
        'n': st.integers(2, 10), 'bs': st.integers(1, 6), 'obj': obj,
        'mpb': st.sampled_from([None, 1, 2, 2, 3, 3, 4, 5, 6]),
        'cores': st.integers(1, 4),
        'seed': st.integers(0, 2 ** 32 - 1),
        'schedule': st.lists(st.integers(0, 11), min_size=0, max_size=40),
        'lag': st.booleans(),
    })


def strat_smc(tier):
    return st.fixed_dictionaries({
        'sampler': st.just('smc'),
        'model': models.model_desc().map(lambda d: _cont(dict(d, infcut=None, kind='float' if d['kind'] == 'coarse' else d['kind']))),
        'n': st.integers(3, 10), 'bs': st.integers(1, 6),
        'obj': st.one_of(st.tuples(st.just('thresholds'), st.lists(st.integers(25, 70), min_size=1, max_size=3)),
                         st.tuples(st.just('quantiles'), st.lists(st.sampled_from([0.5, 0.4, 0.7, 0.25]), min_size=1, max_size=3))),
        'mpb': st.sampled_from([None, 1, 2, 2, 3, 3, 4, 5, 6]),
        'cores': st.integers(1, 4),
        'seed': st.integers(0, 2 ** 32 - 1),
        'schedule': st.lists(st.integers(0, 11), min_size=0, max_size=40),
        'lag': st.booleans(),
        # a second sample() call on the same sampler object (continued SMC) with 1-2 further thresholds
        'cont': st.one_of(st.none(), st.none(), st.lists(st.integers(15, 45), min_size=1, max_size=2)),
    })


def pilot(desc, seed):
    m, info = models.build(desc, name='pilot')
    d = m.generate(300, ['d'], seed=(seed + 777) % (2 ** 32))['d']
    models.reset()
    fin = np.sort(d[np.isfinite(d)])
    return fin


def _objective(case):
    kind, val = case['obj']
    if kind in ('threshold', 'thresholds'):
        fin = pilot(case['model'], case['seed'])
        if len(fin) < 30:
            return None
        pick = lambda pct: float(fin[min(len(fin) - 1, int(len(fin) * pct / 100.0))])
        if kind == 'threshold':
            return {'threshold': pick(val)}
        ths = sorted((pick(v) for v in val), reverse=True)
        return {'thresholds': ths}
    if kind == 'quantiles':
        return {'quantiles': list(val)}
    return {kind: val}


def _run(case, objkw, client, mpb):
    import elfi
    models.reset()
    schedclient.install(client)
    try:
        m, info = models.build(case['model'])
        cls = elfi.Rejection if case['sampler'] == 'rejection' else elfi.SMC
        s = cls(m['d'], batch_size=case['bs'], seed=case['seed'], output_names=['rid'], max_parallel_batches=mpb)
        with time_limit(120, 'C04:run-does-not-terminate', '%s.sample' % cls.__name__):
            res = s.sample(case['n'], bar=False, **objkw)
            if case.get('cont') and case['sampler'] == 'smc':
                fin = pilot(case['model'], case['seed'])
                models.reset()
                lowest = min(float(p.threshold) for p in res.populations)
                cths = sorted((min(float(fin[min(len(fin) - 1, int(len(fin) * v / 100.0))]), lowest) for v in case['cont']), reverse=True)
                res = s.sample(case['n'], bar=False, thresholds=cths)
    finally:
        schedclient.restore_native()
    return res, s


def _sample_fields(res):
    f = {'n_sim': res.n_sim, 'n_batches': res.n_batches, 'threshold': float(res.threshold)}
    for k, v in res.outputs.items():
        f['out:' + k] = np.asarray(v)
    if hasattr(res, 'weights') and res.weights is not None:
        f['weights'] = np.asarray(res.weights)
    return f


def _fields(res):
    f = _sample_fields(res)
    pops = getattr(res, 'populations', None)
    if pops:
        for i, p in enumerate(pops):
            for k, v in _sample_fields(p).items():
                f['pop%d:%s' % (i, k)] = v
            f['pop%d:cov' % i] = np.asarray(p.cov)
    return f


def run_case(case):
    import elfi.clients.native as native
    objkw = _objective(case)
    if objkw is None:
        return CaseResult(['pilot-degenerate'], None)
    ctx = 'sampler=%s n=%d bs=%d objective=%r mpb=%r cores=%d seed=%d schedule=%r lag=%r model=%r' % (
        case['sampler'], case['n'], case['bs'], objkw, case['mpb'], case['cores'], case['seed'], case['schedule'], case['lag'], case['model'])
    # reference: sequential run
    with must_not_raise(P, 'sequential reference run; ' + ctx):
        ref, _ = _run(case, objkw, native.Client(), 1)
    ref_f = _fields(ref)
    ref_log_batches = sorted(b for b, _, _ in models.LOG)
    # scheduled run
    client = schedclient.SchedClient(case['schedule'], num_cores=case['cores'], lag=case['lag'])
    with must_not_raise(P, 'scheduled run; ' + ctx, allowed=(schedclient.ProtocolError,)):
        try:
            got, sampler = _run(case, objkw, client, case['mpb'])
        except schedclient.ProtocolError as e:
            raise Violation('C04:result-of-removed-task-requested', '%s; %s' % (e, ctx))
    limit = case['mpb'] or case['cores']
    consumed = client.consumed()
    B = len(consumed)
    if consumed != list(range(B)):
        raise Violation('C04:not-consumed-in-index-order-once', 'batches were consumed in the order %r; %s' % (consumed, ctx))
    if client.max_outstanding > limit:
        raise Violation('C04:too-many-outstanding', '%d tasks outstanding with max_parallel_batches=%d; %s' % (client.max_outstanding, limit, ctx))
    if client.protocol_errors:
        raise Violation('C04:protocol', '%r; %s' % (client.protocol_errors, ctx))
    if client.tasks:
        raise Violation('C04:tasks-left-in-client', '%d submitted task(s) left in the client when sample() returned (batch indices %r); %s'
                        % (len(client.tasks), [t['batch_index'] for t in client.tasks.values()], ctx))
    got_f = _fields(got)
    if set(got_f) != set(ref_f):
        raise Violation('C04:result-structure', 'fields differ: %r vs %r; %s' % (sorted(got_f), sorted(ref_f), ctx))
    for k in sorted(ref_f):
        a, b = got_f[k], ref_f[k]
        same = np.array_equal(a, b, equal_nan=True) if isinstance(a, np.ndarray) else (a == b or (a != a and b != b))
        if not same:
            raise Violation('C04:schedule-dependent-result',
                            '%s differs from the sequential run: scheduled %r vs sequential %r (consumed %d vs %d batches); %s'
                            % (k, np.asarray(a).tolist(), np.asarray(b).tolist(), B, ref.n_batches, ctx))
    if got.n_batches != B or got.n_sim != B * case['bs']:
        raise Violation('C04:n_sim-accounting', 'consumed %d batches, result says n_batches=%r n_sim=%r; %s' % (B, got.n_batches, got.n_sim, ctx))
    speculative = client.max_outstanding >= 2
    cancelled = len(client.removed()) > 0
    out_of_order = any(b is not None and a is not None and b < a for a, b in zip(client.executed_order, client.executed_order[1:]))
    labels = ['sampler=' + case['sampler'], 'objective=' + case['obj'][0]]
    if speculative:
        labels.append('speculative')
    if cancelled:
        labels.append('cancelled')
    if out_of_order:
        labels.append('out-of-order-execution')
    if len(client.removed()) >= 2:
        labels.append('cancelled>=2')
    if case['mpb'] is None:
        labels.append('mpb-from-cores')
    if case.get('cont') and case['sampler'] == 'smc':
        labels.append('continued-sampling')
    if case['obj'][0] in ('n_sim', 'quantile'):
        nontrivial = True if speculative else None
    else:
        nontrivial = True if (speculative and cancelled) else None
    return CaseResult(labels, nontrivial)


CHECK = Check(
    P, 'exploration',
    rule=('Hypothesis-generated (model, sampler configuration, schedule) triples: Rejection with threshold | quantile | n_sim and SMC '
          'with 1-3 rounds of thresholds or quantiles (optionally continued by a second sample() call on the same object), batch_size 1-6, n_samples 2-10, max_parallel_batches None (client cores 1-4 decide) '
          'or 1-6, and a schedule of 0-40 integers that drives which outstanding tasks the client executes at every apply/is_ready/'
          'get_result and whether is_ready lags. Non-trivial = at least one speculative submission (>= 2 outstanding) and, for '
          'threshold/SMC objectives, at least one cancelled batch.'),
    parts=[Part('rejection', run_case, strategy=strat_rejection, examples={'quick': 640, 'thorough': 24000}),
           Part('smc', run_case, strategy=strat_smc, examples={'quick': 200, 'thorough': 6400})],
    assumptions=['schedules are modelled at the ClientBase contract (each task executed at most once, get_result blocks until executed); '
                 'this is a superset of what the real pools exhibit, OS-level timing is not needed',
                 'SMC models use continuous priors (ModelPrior needs densities)'],
    design_ref='DESIGN.md section 4, C04',
    technique='Hypothesis-generated worker schedules through a harness-owned ClientBase; differential vs the sequential run plus '
              'trace invariants',
    level_text='Exploration over schedules x configurations with the harness owning the schedule: results must be array-identical to '
               'the sequential run and the recorded client trace must satisfy the consumption-order, outstanding-limit, '
               'no-removed-result and empty-at-return invariants. Not exhaustive over schedules.',
    level_note='The scheduled client runs tasks in-process; real process pools are exercised by C02 (multiprocessing).')
