"""C06 - on-disk array stores keep exactly what was written, across reopen and crash.

Histories part: a generated operation list is applied to a real NpyStore / ArrayPool and to a
Python list of batches; after every operation the store must report exactly the model, after
every flush/close/pickle numpy.load of the file must give the concatenated model.
Crash part (fault enumeration): the same kind of history is replayed in a forked child that is
killed at EVERY low-level file operation in turn (verif.crash); after a kill the file must load
and equal the logical content at some operation boundary between the last completed flush and
the operation in flight.
"""

import os
import pickle
import shutil
import tempfile

import numpy as np
from hypothesis import strategies as st

from .. import crash
from ..core import CaseResult, Part, Violation, must_not_raise, soft
from ..runner import Check

P = 'C06'
DTYPES = ['f8', 'f4', 'i8', 'i4', 'u1', 'bool', 'c16']
SHAPES = [(), (3,), (2, 2)]


def make_batch(k, bs, dtype, row_shape, seed, layout='C'):
    """Batch number k: distinct, recognisable content."""
    n = int(np.prod((bs,) + tuple(row_shape)))
    if dtype == 'bool':
        a = np.random.RandomState(seed * 1000 + k).randint(0, 2, size=n).astype(bool)
    elif dtype == 'u1':
        a = ((k * 37 + np.arange(n) * 3 + seed) % 251).astype('u1')
    elif dtype == 'c16':
        a = (k + 1) * 1000 + np.arange(n) + 1j * (k + 0.5)
    else:
        a = ((k + 1) * 1000 + np.arange(n) + (0.25 if dtype[0] == 'f' else 0)).astype(dtype)
    a = a.astype(dtype).reshape((bs,) + tuple(row_shape))
    if layout == 'F' and a.ndim >= 2:
        a = np.asfortranarray(a)
    elif layout == 'strided':
        big = np.zeros((bs * 2,) + tuple(row_shape), dtype=dtype)
        big[::2] = a
        a = big[::2]
    return a


def content(model, bs, dtype, row_shape, seed):
    if not model:
        return np.zeros((0,) + tuple(row_shape), dtype=dtype)
    return np.concatenate([make_batch(k, bs, dtype, row_shape, seed) for k in model])


OPS = st.one_of(
    st.tuples(st.just('append'), st.just(0)), st.tuples(st.just('append'), st.just(0)), st.tuples(st.just('append'), st.just(0)),
    st.tuples(st.just('overwrite'), st.integers(0, 20)),
    st.tuples(st.just('del-last'), st.just(0)),
    st.tuples(st.just('clear'), st.just(0)),
    st.tuples(st.just('flush'), st.just(0)), st.tuples(st.just('flush'), st.just(0)),
    st.tuples(st.just('reopen'), st.just(0)),
    st.tuples(st.just('pickle'), st.just(0)),
    st.tuples(st.just('read'), st.integers(0, 20)),       # a read re-creates the memmap without flushing the header
)


def strat(tier, maxops=14):
    return st.fixed_dictionaries({
        'dtype': st.sampled_from(DTYPES), 'row_shape': st.sampled_from([0, 1, 2]), 'bs': st.integers(1, 4),
        'seed': st.integers(0, 999), 'layout': st.sampled_from(['C', 'C', 'F', 'strided']),
        'level': st.sampled_from(['store', 'store', 'pool']),
        'ops': st.lists(OPS, min_size=1, max_size=maxops),
    })


def strat_hist(tier):
    return strat(tier, 14)


def strat_crash(tier):
    return strat(tier, 9 if tier == 'quick' else 12)


class Driver(object):
    """Applies operations to the real store(s); knows nothing about the expected content."""

    def __init__(self, case, workdir):
        import elfi
        import elfi.store as store
        self.case = case
        self.dir = workdir
        self.bs = case['bs']
        self.level = case['level']
        self.store_mod = store
        self.next_id = 0
        if self.level == 'store':
            self.files = {'x': os.path.join(workdir, 'x.npy')}
            self.spec = {'x': (case['dtype'], SHAPES[case['row_shape']])}
            self.store = store.NpyStore(os.path.join(workdir, 'x'), self.bs)
        else:
            other = DTYPES[(DTYPES.index(case['dtype']) + 3) % len(DTYPES)]
            self.spec = {'x': (case['dtype'], SHAPES[case['row_shape']]), 'y': (other, SHAPES[(case['row_shape'] + 1) % 3])}
            self.pool = elfi.ArrayPool(['x', 'y'], name='pool', prefix=workdir)
            self.pool.batch_size = self.bs
            self.pool.seed = 123
            self.files = {k: os.path.join(workdir, 'pool', k + '.npy') for k in self.spec}

    def batch(self, key, k):
        dt, rs = self.spec[key]
        return make_batch(k, self.bs, dt, rs, self.case['seed'], self.case['layout'])

    def stores(self):
        if self.level == 'store':
            return {'x': self.store}
        return {k: self.pool.stores[k] for k in self.spec}

    def init(self):
        k = self.next_id
        self.next_id += 1
        if self.level == 'store':
            self.store[0] = self.batch('x', k)
            self.store.flush()
        else:
            self.pool.add_batch({key: self.batch(key, k) for key in self.spec}, 0)
            self.pool.flush()
        return k

    def apply(self, op, arg, model_len):
        """Returns ('append', id) / ('overwrite', i, id) / ('pop',) / ('clear',) / ('flush',) / None (skipped)."""
        if op == 'append':
            k = self.next_id
            self.next_id += 1
            if self.level == 'store':
                self.store[model_len] = self.batch('x', k)
            else:
                self.pool.add_batch({key: self.batch(key, k) for key in self.spec}, model_len)
            return ('append', k)
        if op == 'overwrite':
            if model_len == 0:
                return None
            i = arg % model_len
            k = self.next_id
            self.next_id += 1
            if self.level == 'store':
                self.store[i] = self.batch('x', k)
            else:
                for key in self.spec:                      # pools never overwrite through add_batch: use the store
                    self.pool.stores[key][i] = self.batch(key, k)
            return ('overwrite', i, k)
        if op == 'read':
            if model_len == 0:
                return None
            for store in self.stores().values():
                np.array(store[arg % model_len])
            return None
        if op == 'del-last':
            if model_len == 0:
                return None
            if self.level == 'store':
                del self.store[model_len - 1]
            else:
                self.pool.remove_batch(model_len - 1)
            return ('pop',)
        if op == 'clear':
            if self.level == 'store':
                self.store.clear()
            else:
                self.pool.clear()
            return ('clear',)
        if op == 'flush':
            if self.level == 'store':
                self.store.flush()
            else:
                self.pool.flush()
            return ('flush',)
        if op == 'reopen':
            if self.level == 'store':
                self.store.close()
                self.store = self.store_mod.NpyStore(os.path.join(self.dir, 'x'), self.bs)
            else:
                import elfi
                self.pool.close()
                self.pool = elfi.ArrayPool.open('pool', prefix=self.dir)
            return ('flush',)
        if op == 'pickle':
            if self.level == 'store':
                old = self.store
                self.store = pickle.loads(pickle.dumps(old))
                old.close()
            else:
                self.pool.save()
            return ('flush',)
        raise ValueError(op)

    def close(self):
        try:
            for s in self.stores().values():
                if s is not None and hasattr(s, 'close'):
                    s.close()
        except Exception:
            pass


def step_model(model, eff):
    model = list(model)
    if eff is None:
        return model
    if eff[0] == 'append':
        model.append(eff[1])
    elif eff[0] == 'overwrite':
        model[eff[1]] = eff[2]
    elif eff[0] == 'pop':
        model.pop()
    elif eff[0] == 'clear':
        model = []
    return model


def _same(a, b):
    return a.dtype == b.dtype and a.shape == b.shape and np.array_equal(a, b)


def run_history(case):
    workdir = tempfile.mkdtemp(prefix='c06-', dir=os.environ.get('VERIF_TMP'))
    ctx = 'dtype=%s row_shape=%r bs=%d layout=%s level=%s ops=%r' % (case['dtype'], SHAPES[case['row_shape']], case['bs'], case['layout'], case['level'], case['ops'])
    labels = ['level=' + case['level'], 'dtype=' + case['dtype']]
    drv = None
    try:
        with must_not_raise(P, 'initialising the store; ' + ctx):
            drv = Driver(case, workdir)
            model = [drv.init()]
        seen_trunc = False
        nontrivial = None
        unflushed = False
        for oi, (op, arg) in enumerate(case['ops']):
            octx = 'after op %d %r; %s' % (oi, (op, arg), ctx)
            with must_not_raise(P, 'applying the operation; ' + octx):
                eff = drv.apply(op, arg, len(model))
            model = step_model(model, eff)
            if eff is not None and eff[0] in ('pop', 'clear'):
                seen_trunc = True
            if eff is not None and eff[0] == 'append' and seen_trunc:
                nontrivial = True
                labels.append('append-after-truncate')
            if eff is not None and eff[0] == 'flush':
                if unflushed and op in ('reopen', 'pickle'):
                    nontrivial = True
                    labels.append('reopen-with-unflushed-rows')
                unflushed = False
            elif eff is not None:
                unflushed = True
            for key, store in drv.stores().items():
                dt, rs = drv.spec[key]
                with must_not_raise(P, 'reading the store; ' + octx):
                    n = len(store)
                    cont = [(i in store) for i in range(len(model) + 2)]
                    got = [np.array(store[i]) for i in range(len(model))]
                if n != len(model):
                    raise Violation('C06:len', 'store %s reports %d batches, the in-memory sequence has %d; %s' % (key, n, len(model), octx))
                if cont != [i < len(model) for i in range(len(model) + 2)]:
                    raise Violation('C06:contains', 'store %s: `i in store` gives %r for a sequence of %d batches; %s' % (key, cont, len(model), octx))
                for i, k in enumerate(model):
                    exp = make_batch(k, case['bs'], dt, rs, case['seed'])
                    if not _same(got[i], exp):
                        raise Violation('C06:batch-content', 'store %s batch %d is %r (dtype %s), expected batch #%d %r; %s'
                                        % (key, i, got[i].tolist(), got[i].dtype, k, exp.tolist(), octx))
                if eff is not None and eff[0] == 'flush':
                    fn = drv.files[key]
                    try:
                        with open(fn, 'rb') as f:
                            version = np.lib.format.read_magic(f)
                        loaded = np.load(fn)
                    except Exception as e:
                        raise Violation('C06:file-not-loadable-after-flush', 'numpy cannot load %s after %s: %s: %s; %s'
                                        % (os.path.basename(fn), op, type(e).__name__, str(e)[:200], octx))
                    exp = content(model, case['bs'], dt, rs, case['seed'])
                    if tuple(version) != (2, 0):
                        raise Violation('C06:npy-version', 'file version %r; %s' % (version, octx))
                    if not _same(loaded, exp):
                        raise Violation('C06:file-content-after-flush', 'numpy.load(%s) gives shape %r dtype %s %r, the in-memory sequence is shape %r %r; %s'
                                        % (os.path.basename(fn), loaded.shape, loaded.dtype, loaded.tolist(), exp.shape, exp.tolist(), octx))
        if case['layout'] != 'C':
            labels.append('layout=' + case['layout'])
        return CaseResult(sorted(set(labels)), nontrivial)
    finally:
        if drv is not None:
            drv.close()
        shutil.rmtree(workdir, ignore_errors=True)


# ------------------------------------------------------------------ crash points

def _child_history(case, workdir):
    def fn(report):
        drv = Driver(case, workdir)
        k = drv.init()
        report('INIT %d' % k)
        n = 1
        for oi, (op, arg) in enumerate(case['ops']):
            report('START %d' % oi)
            eff = drv.apply(op, arg, n)
            if eff is not None:
                if eff[0] == 'append':
                    n += 1
                elif eff[0] == 'pop':
                    n -= 1
                elif eff[0] == 'clear':
                    n = 0
            report('DONE %d' % oi)
    return fn


def run_crash(case):
    """Enumerate every kill point of one history."""
    import elfi.store      # noqa: F401  (import in the parent: the forked children must not pay for it each time)
    base = tempfile.mkdtemp(prefix='c06c-', dir=os.environ.get('VERIF_TMP'))
    ctx = 'dtype=%s row_shape=%r bs=%d layout=%s level=%s ops=%r' % (case['dtype'], SHAPES[case['row_shape']], case['bs'], case['layout'], case['level'], case['ops'])
    known = []
    try:
        # the model states at every operation boundary, computed without elfi
        spec_drv_dir = os.path.join(base, 'probe')
        os.makedirs(spec_drv_dir)
        code, reports, npoints, plabels = crash.run_in_child(_child_history(case, spec_drv_dir), None)
        if code != 0 or npoints is None:
            raise Violation('C06:history-fails', 'the history itself failed (exit %r): %r; %s' % (code, reports[-2:], ctx))
        # reference boundaries
        states = [[0]]           # after init
        next_id = 1
        flush_at = [True]
        for op, arg in case['ops']:
            cur = states[-1]
            if op == 'append':
                eff = ('append', next_id)
                next_id += 1
            elif op == 'overwrite':
                if cur:
                    eff = ('overwrite', arg % len(cur), next_id)
                    next_id += 1
                else:
                    eff = None
            elif op == 'del-last':
                eff = ('pop',) if cur else None
            elif op == 'clear':
                eff = ('clear',)
            elif op == 'read':
                eff = None
            else:
                eff = ('flush',)
            states.append(step_model(cur, eff))
            flush_at.append(eff is not None and eff[0] == 'flush')
        level = case['level']
        if level == 'store':
            spec = {'x': (case['dtype'], SHAPES[case['row_shape']])}
            rel = {'x': 'x.npy'}
        else:
            other = DTYPES[(DTYPES.index(case['dtype']) + 3) % len(DTYPES)]
            spec = {'x': (case['dtype'], SHAPES[case['row_shape']]), 'y': (other, SHAPES[(case['row_shape'] + 1) % 3])}
            rel = {k: os.path.join('pool', k + '.npy') for k in spec}
        nkills = 0
        after_unflushed = 0
        for k in range(1, npoints + 1):
            wd = os.path.join(base, 'k%d' % k)
            os.makedirs(wd)
            code, reports, _, _ = crash.run_in_child(_child_history(case, wd), k)
            if code == 99:
                raise Violation('C06:history-fails', 'replay raised %r; %s' % (reports[-1:], ctx))
            if not any(r.startswith('INIT') for r in reports):
                shutil.rmtree(wd, ignore_errors=True)
                continue                      # killed before the store was initialised and flushed
            done = [int(r.split()[1]) for r in reports if r.startswith('DONE')]
            started = [int(r.split()[1]) for r in reports if r.startswith('START')]
            j = (done[-1] + 1) if done else 0                    # index into states of the last completed boundary
            inflight = (started[-1] + 1) if (started and (not done or started[-1] > done[-1])) else j
            f = max(i for i in range(0, j + 1) if flush_at[i])   # last completed flush boundary
            hi = max(j, inflight)
            nkills += 1
            if any(states[i] != states[f] for i in range(f, hi + 1)):
                after_unflushed += 1
            for key in spec:
                dt, rs = spec[key]
                fn = os.path.join(wd, rel[key])
                point = plabels[k - 1] if k - 1 < len(plabels) else '?'
                kctx = 'kill at file operation %d/%d (%s), during op %s, last completed flush after op %d; %s' % (
                    k, npoints, point, (inflight - 1) if inflight > j else 'none (between operations)', f - 1, ctx)
                try:
                    loaded = np.load(fn)
                except Exception as e:
                    sig = 'C06:file-not-loadable-after-kill'
                    raise Violation(sig, 'store %s: numpy cannot load the file left behind (%s: %s); %s' % (key, type(e).__name__, str(e)[:160], kctx))
                ok = any(_same(loaded, content(states[i], case['bs'], dt, rs, case['seed'])) for i in range(f, hi + 1))
                if not ok:
                    raise Violation('C06:file-content-after-kill-never-existed',
                                    'store %s: the file left behind holds shape %r %r, which is none of the logical contents between the last flush and the kill: %r; %s'
                                    % (key, loaded.shape, loaded.tolist(), [content(states[i], case['bs'], dt, rs, case['seed']).tolist() for i in range(f, hi + 1)], kctx))
                # life goes on after the crash: reopen the file that was left behind, append one batch, flush
                if level == 'store':
                    import elfi.store as es
                    try:
                        st2 = es.NpyStore(os.path.join(wd, 'x'), case['bs'])
                        nb = len(loaded) // case['bs']
                        n2 = len(st2)
                        newb = make_batch(900 + k, case['bs'], dt, rs, case['seed'])
                        st2[n2] = newb
                        st2.flush()
                        st2.close()
                        after = np.load(fn)
                    except Exception as e:
                        raise Violation('C06:reopen-after-kill-fails', 'reopening and appending to the file left behind raised %s: %s; %s'
                                        % (type(e).__name__, str(e)[:160], kctx))
                    if n2 != nb or not _same(after, np.concatenate([loaded, newb])):
                        raise Violation('C06:append-after-kill-misplaced',
                                        'after the kill the file held %d batches %r; reopened store reports %d; after appending one batch and flushing numpy loads %r; %s'
                                        % (nb, loaded.tolist(), n2, after.tolist(), kctx))
            shutil.rmtree(wd, ignore_errors=True)
        labels = ['level=' + level, 'kill-points=%s' % ('<30' if npoints < 30 else ('30-60' if npoints < 60 else '>60'))]
        if after_unflushed:
            labels.append('kill-with-unflushed-mutation')
        res = CaseResult(labels, True if after_unflushed else None, known)
        res.labels.extend(['kills-executed-and-judged'] * nkills)     # the class counter then holds the total number of kills
        return res
    finally:
        shutil.rmtree(base, ignore_errors=True)



CHECK = Check(
    P, 'fault_enumeration',
    rule=('histories: Hypothesis-generated operation lists (<= 14 ops: append, overwrite batch i, read batch i, delete last, clear, flush, close+reopen, '
          'pickle round-trip / pool save) over an initialised NpyStore or a two-store ArrayPool, dtypes f8 f4 i8 i4 u1 bool c16, row shapes '
          '() (3,) (2,2), batch sizes 1-4, C / Fortran / strided input arrays; non-trivial = an append after a truncation or a reopen with '
          'unflushed rows. crash: for each generated history EVERY kill point (before and after each low-level write, truncate, flush, seek, '
          'close and memmap assignment, measured per history) is enumerated in a forked child; non-trivial = at least one kill point with '
          'an un-flushed mutation between the last completed flush and the kill. After every kill the file is also reopened, one batch appended '
          'and flushed (life after the crash). Histories are sampled, kill points are exhaustive per history.'),
    parts=[Part('histories', run_history, strategy=strat_hist, examples={'quick': 300, 'thorough': 16000}),
           Part('crash', run_crash, strategy=strat_crash, examples={'quick': 160, 'thorough': 3200}, fuzz={'thorough': 240},
                shards={'quick': 16, 'thorough': 16}, shrink=True, max_shrink_s=60)],
    assumptions=['os.fork + os._exit at a Python-level file operation models SIGKILL for user-space buffers; a torn single write() '
                 'syscall or power loss (page cache not reaching the disk) is outside "process killed"',
                 'kills before the first completed flush of an initialised store are only required not to hang'],
    design_ref='DESIGN.md section 4, C06',
    technique='Hypothesis-generated store histories vs an in-memory list model; exhaustive per-history kill-point injection '
              '(fork + os._exit at every file operation) with numpy.load as the judge',
    level_text='Fault enumeration: for every sampled history the kill points are enumerated exhaustively (each low-level file '
               'operation, before and after); the file left behind must load with numpy and equal a logical content between the '
               'last flush and the kill. The histories part compares every read and every flushed file with a list model.',
    level_note='Histories are sampled (not exhaustive); the injector observes Python-level file operations through a proxy for '
               'elfi.store.open and a wrapper around NpyArray.__setitem__ installed from outside (no source hooks).')
