"""C14 - editing, copying and saving a model preserves its structure and meaning.

A generated operation list (add / become / remove / copy+mutate / save+load) is interpreted against
a real ElfiModel and a dict reference model; invariants are checked after every step.
"""

import os
import shutil
import tempfile
from functools import partial

import networkx as nx
import numpy as np
from hypothesis import strategies as st

from .. import termops
from ..core import CaseResult, Part, Violation, must_not_raise
from ..runner import Check

P = 'C14'
KINDS = ['const', 'op', 'prior', 'sim', 'summary', 'disc']
CLSNAME = {'const': 'Constant', 'op': 'Operation', 'prior': 'Prior', 'sim': 'Simulator', 'summary': 'Summary', 'disc': 'Discrepancy'}


def strat(tier):
    # one uniform op shape (kind, node kind, int list, int, int, copy mutations) so that the op kinds can be weighted:
    # st.one_of ignores repeated alternatives
    kinds = ['add'] * 7 + ['become'] * 2 + ['become-existing'] * 2 + ['rewire'] * 2 + ['remove'] * 2 + ['copy'] * 2 + ['save-load']
    sub = st.tuples(st.sampled_from(['add', 'remove', 'params', 'observed', 'uses_meta', 'become', 'del-observed']), st.integers(0, 99))
    op = st.tuples(st.sampled_from(kinds), st.sampled_from(KINDS), st.lists(st.integers(0, 99), max_size=3), st.integers(0, 99),
                   st.integers(0, 9), st.lists(sub, min_size=0, max_size=4))
    return st.fixed_dictionaries({'ops': st.lists(op, min_size=3, max_size=25 if tier == 'thorough' else 18), 'seed': st.integers(0, 1000)})


class Ref(object):
    def __init__(self):
        self.nodes = {}       # name -> dict(kind, pos, opid)
        self.observed = {}

    def children(self, n):
        return [c for c, nd in self.nodes.items() if ('node', n) in nd['pos'] or n in nd.get('named', {}).values()]

    def descendants(self, n):
        out = set()
        stack = [n]
        while stack:
            x = stack.pop()
            for c in self.children(x):
                if c not in out:
                    out.add(c)
                    stack.append(c)
        return out

    def snapshot(self):
        return ({n: (CLSNAME[nd['kind']], tuple(nd['pos']), nd['opid'], tuple(sorted(nd.get('named', {}).items()))) for n, nd in self.nodes.items()},
                {k: v for k, v in self.observed.items()})


def add_node(m, name, kind, pos, opid, observed):
    import elfi
    args = [m[p[1]] if p[0] == 'node' else p[1] for p in pos]
    if kind == 'const':
        elfi.Constant(('C', opid), model=m, name=name)
    elif kind == 'op':
        elfi.Operation(partial(termops.op, opid), *args, model=m, name=name)
    elif kind == 'prior':
        elfi.Prior(termops.DrawDist(opid, 1), *args, model=m, name=name)
    elif kind == 'sim':
        elfi.Simulator(partial(termops.draw_op, opid, 1), *args, model=m, name=name, observed=observed)
    elif kind == 'summary':
        elfi.Summary(partial(termops.op, opid), *args, model=m, name=name)
    elif kind == 'disc':
        elfi.Discrepancy(partial(termops.op, opid), *args, model=m, name=name)


def structure(m):
    """Observable structure of an ElfiModel: class, ordered positional parents, operation id per non-private node."""
    out = {}
    for n in m.nodes:
        if n.startswith('_'):
            continue
        ref = m[n]
        st_ = ref['attr_dict']
        parents = []
        for p in m.get_parents(n):
            if p.startswith('_'):
                parents.append(('raw', m[p]['attr_dict']['_output']))
            else:
                parents.append(('node', p))
        o = st_.get('_operation')
        if o is not None:
            opid = o.args[0] if o.func in (termops.op, termops.draw_op) else o.keywords['distribution'].name_
        else:
            opid = st_['_output'][1]
        named = tuple(sorted((d['param'], u) for u, _, d in m.source_net.in_edges(n, data=True) if isinstance(d['param'], str)))
        out[n] = (type(ref).__name__, tuple(parents), opid, named)
    return out


def check(m, ref, where, ctx):
    if not nx.is_directed_acyclic_graph(m.source_net):
        raise Violation('C14:not-a-dag', '%s: the model graph has a cycle; %s' % (where, ctx))
    exp_struct, exp_obs = ref.snapshot()
    got = structure(m)
    if got != exp_struct:
        diff = {k: (got.get(k), exp_struct.get(k)) for k in set(got) | set(exp_struct) if got.get(k) != exp_struct.get(k)}
        raise Violation('C14:structure', '%s: nodes (actual, expected) differ: %r; %s' % (where, diff, ctx))
    for n in m.nodes:
        if n.startswith('_') and m.source_net.degree(n) < 1:
            raise Violation('C14:orphan-private-constant', '%s: private node %s is left without a child; %s' % (where, n, ctx))
    if set(m.observed) != set(exp_obs) or any(m.observed[k] != v for k, v in exp_obs.items()):
        raise Violation('C14:observed', '%s: observed data %r, expected %r; %s' % (where, dict(m.observed), exp_obs, ctx))
    params = sorted(n for n, nd in ref.nodes.items() if nd['kind'] == 'prior')
    if m.parameter_names != params:
        raise Violation('C14:parameter_names', '%s: parameter_names %r, parameter nodes are %r; %s' % (where, m.parameter_names, params, ctx))


def seeded_output(m, seed):
    """Seeded generate of all non-private nodes; an exception class name if the graph is not evaluable."""
    names = sorted(n for n in m.nodes if not n.startswith('_'))
    if not names:
        return ('empty',)
    termops.reset()
    try:
        return ('ok', termops.canon(sorted(m.generate(2, names, seed=seed).items())))
    except Exception as e:
        return ('exc', type(e).__name__)


def run_case(case):
    import elfi
    ref = Ref()
    ctr = [0]
    hist = []
    tmp = tempfile.mkdtemp(prefix='c14-', dir=os.environ.get('VERIF_TMP'))
    labels = []
    mutated_copy = False
    edited = False
    try:
        m = elfi.ElfiModel(name='c14model')

        def new_node(model, r, kind, pidx, rawsel, obssel, forbidden=()):
            names = [n for n in r.nodes if n not in forbidden]
            if kind in ('summary', 'disc') and not names:
                kind = 'op'
            k = 0 if kind == 'const' else min(len(pidx), len(names))
            if kind in ('summary', 'disc'):
                k = max(1, k)
            chosen = []
            for i in range(k):
                pool = [n for n in names if n not in chosen]
                if not pool:
                    break
                chosen.append(pool[(pidx[i] if i < len(pidx) else 0) % len(pool)])
            pos = [('node', p) for p in chosen]
            if kind != 'const' and rawsel < 4:
                pos.insert(rawsel % (len(pos) + 1), ('raw', 100 + rawsel))
            ctr[0] += 1
            name = 'n%d' % ctr[0]
            obs = ('OBS', ctr[0]) if (kind == 'sim' and obssel < 6) else None
            add_node(model, name, kind, pos, ctr[0], obs)
            named = {}
            if kind == 'op' and rawsel % 3 == 1:
                # a keyword parent (attached with add_edge(parent, child, 'kw'))
                pool = [n for n in names if n not in chosen]
                if pool:
                    named['kw'] = pool[(rawsel + obssel) % len(pool)]
                    model.add_edge(named['kw'], name, 'kw')
            r.nodes[name] = {'kind': kind, 'pos': pos, 'opid': ctr[0], 'named': named}
            if obs is not None:
                r.observed[name] = obs
            return name

        def do_become(model, r, kind, pidx, tsel, obssel):
            names = list(r.nodes)
            if not names:
                return None
            tgt = names[tsel % len(names)]
            forbidden = r.descendants(tgt) | {tgt}
            if kind == 'summary' and not [n for n in names if n not in forbidden]:
                kind = 'op'
            new = new_node(model, r, kind, pidx, (obssel * 7 + tsel) % 10, obssel, forbidden=forbidden)
            model[tgt].become(model[new])
            nd = r.nodes.pop(new)
            r.nodes[tgt] = nd
            r.observed.pop(tgt, None)
            if new in r.observed:
                r.observed[tgt] = r.observed.pop(new)
            return tgt

        def do_become_existing(model, r, tsel, rsel):
            """target.become(an EXISTING childless node that has been in the graph for a while)."""
            names = list(r.nodes)
            if len(names) < 2:
                return None
            tgt = names[tsel % len(names)]
            forbidden = r.descendants(tgt) | {tgt}
            cands = [n for n in names if n not in forbidden and not r.children(n)]
            if not cands:
                return None
            rep = cands[rsel % len(cands)]
            model[tgt].become(model[rep])
            nd = r.nodes.pop(rep)
            r.nodes[tgt] = nd
            r.observed.pop(tgt, None)
            if rep in r.observed:
                r.observed[tgt] = r.observed.pop(rep)
            return (tgt, rep)

        def do_remove(model, r, sel):
            leaves = [n for n in r.nodes if not r.children(n)]
            if not leaves:
                return None
            tgt = leaves[sel % len(leaves)]
            model.remove_node(tgt)
            r.nodes.pop(tgt)
            r.observed.pop(tgt, None)
            return tgt

        for oi, op in enumerate(case['ops']):
            ctx = 'history so far %r' % (hist,)
            kind = op[0]
            with must_not_raise(P, 'step %d %r; %s' % (oi, op, ctx)):
                if kind == 'add':
                    nm = new_node(m, ref, op[1], op[2], op[3] % 10, op[4])
                    hist.append(('add', nm, ref.nodes[nm]['kind'], ref.nodes[nm]['pos']))
                elif kind == 'become':
                    bk = op[1] if op[1] in ('op', 'prior', 'sim', 'summary', 'const') else 'op'
                    t = do_become(m, ref, bk, op[2], op[3], op[4])
                    hist.append(('become', t, bk))
                    edited = edited or t is not None
                elif kind == 'become-existing':
                    t = do_become_existing(m, ref, op[3], op[2][0] if op[2] else 0)
                    hist.append(('become-existing', t))
                    edited = edited or t is not None
                elif kind == 'rewire':
                    hist.append(('rewire',))
                    def _multi():
                        return [n for n in ref.nodes if not ref.children(n) and sum(1 for p_ in ref.nodes[n]['pos'] if p_[0] == 'node') >= 2]
                    if not _multi() and len(ref.nodes) >= 2:
                        nm = new_node(m, ref, 'op', [op[3], op[3] + 1 + op[4]], 9, 9)      # make one: an operation of two existing nodes
                        hist.append(('add', nm, 'op', ref.nodes[nm]['pos']))
                    multi = _multi()
                    if multi:
                        rep = multi[op[3] % len(multi)]
                        pars = [p_[1] for p_ in ref.nodes[rep]['pos'] if p_[0] == 'node']
                        par = pars[op[4] % (len(pars) - 1)]                      # a non-last parent
                        names_ = list(ref.nodes)
                        t1 = do_become(m, ref, 'prior', [], names_.index(par), 9)
                        hist.append(('become', t1, 'prior'))
                        check(m, ref, 'after %r' % (hist[-1],), 'history %r' % (hist,))
                        others = [n for n in ref.nodes if n != rep and rep not in ref.descendants(n)]
                        if others:
                            tgt = others[(op[2][0] if op[2] else 0) % len(others)]
                            names_ = list(ref.nodes)
                            cands = [n for n in names_ if n not in (ref.descendants(tgt) | {tgt}) and not ref.children(n)]
                            t2 = do_become_existing(m, ref, names_.index(tgt), cands.index(rep))
                            hist.append(('become-existing', t2))
                            labels.append('rewire-executed')
                        edited = True
                elif kind == 'remove':
                    t = do_remove(m, ref, op[3])
                    hist.append(('remove', t))
                    edited = edited or t is not None
            if kind in ('add', 'become', 'become-existing', 'rewire', 'remove'):
                check(m, ref, 'after %r' % (hist[-1],), 'history %r' % (hist,))
            elif kind == 'copy':
                hist.append(('copy', op[5]))
                ctx = 'history %r' % (hist,)
                before = (structure(m), m.parameter_names, dict(m.observed), seeded_output(m, case['seed']),
                          {n: m[n].uses_meta for n in m.nodes if not n.startswith('_')})
                with must_not_raise(P, 'copy(); ' + ctx):
                    c = m.copy()
                cref = Ref()
                cref.nodes = {k: dict(v, pos=list(v['pos']), named=dict(v.get('named', {}))) for k, v in ref.nodes.items()}
                cref.observed = dict(ref.observed)
                check(c, cref, 'fresh copy', ctx)
                if seeded_output(c, case['seed']) != before[3]:
                    raise Violation('C14:copy-generates-differently', 'a fresh copy generates different seeded outputs than the original; %s' % ctx)
                for sub, sel in op[5]:
                    names = sorted(cref.nodes)
                    with must_not_raise(P, 'mutating the copy (%s); %s' % (sub, ctx)):
                        if sub == 'add':
                            new_node(c, cref, KINDS[sel % len(KINDS)], [sel, sel + 1], sel % 10, sel % 10)
                        elif sub == 'remove':
                            do_remove(c, cref, sel)
                        elif sub == 'become':
                            do_become(c, cref, ['op', 'prior', 'sim'][sel % 3], [sel], sel, sel % 10)
                        elif sub == 'params' and names:
                            keep = [n for i, n in enumerate(names) if (sel >> (i % 6)) & 1]
                            c.parameter_names = keep
                        elif sub == 'observed' and names:
                            c.observed[names[sel % len(names)]] = ('NEWOBS', sel)
                        elif sub == 'del-observed' and c.observed:
                            k = sorted(c.observed)[sel % len(c.observed)]
                            del c.observed[k]
                        elif sub == 'uses_meta' and names:
                            c[names[sel % len(names)]].uses_meta = True
                    mutated_copy = True
                    after = (structure(m), m.parameter_names, dict(m.observed), seeded_output(m, case['seed']),
                             {n: m[n].uses_meta for n in m.nodes if not n.startswith('_')})
                    what = ['structure', 'parameter_names', 'observed data', 'seeded output', 'uses_meta flags']
                    for w, a, b in zip(what, before, after):
                        if a != b:
                            raise Violation('C14:copy-mutation-leaks-into-original',
                                            'after %r on the COPY the original\'s %s changed from %r to %r; %s' % ((sub, sel), w, a, b, ctx))
                check(m, ref, 'original after mutating a copy', ctx)
                labels.append('copy')
            elif kind == 'save-load':
                hist.append(('save-load',))
                ctx = 'history %r' % (hist,)
                with must_not_raise(P, 'save/load; ' + ctx):
                    m.save(prefix=tmp)
                    loaded = elfi.ElfiModel.load(m.name, prefix=tmp)
                check(loaded, ref, 'loaded model', ctx)
                if seeded_output(loaded, case['seed']) != seeded_output(m, case['seed']):
                    raise Violation('C14:loaded-generates-differently', 'a saved and loaded model generates different seeded outputs; %s' % ctx)
                labels.append('save-load')
        if edited:
            labels.append('become-or-remove')
        if mutated_copy:
            labels.append('copy-mutated')
        out = seeded_output(m, case['seed'])
        labels.append('evaluable' if out[0] == 'ok' else 'not-evaluable')
        return CaseResult(sorted(set(labels)), (hist,) if (edited and mutated_copy) else None)
    finally:
        shutil.rmtree(tmp, ignore_errors=True)


CHECK = Check(
    P, 'exploration',
    rule=('Hypothesis-generated histories of 1-18 (thorough 25) steps: add Constant/Operation/Prior/Simulator/Summary/Discrepancy with existing '
          'nodes, keyword parents and raw constants as parents (raw constants create private nodes), become(node, fresh replacement whose parents are '
          'non-descendants, possibly carrying observed data, or an existing childless node that is not a descendant), remove a childless node, copy() followed by 0-4 mutations of the copy (add, '
          'remove, become, parameter_names=, observed[...]=, del observed, uses_meta=), save()+load(). Indices are resolved modulo the '
          'current state so every list is executable. Non-trivial = a history with at least one become/remove AND a copy that is mutated.'),
    parts=[Part('histories', run_case, strategy=strat, examples={'quick': 500, 'thorough': 24000})],
    assumptions=['become with a replacement that already has children, or that is an ancestor/descendant of the node, is not generated',
                 'seeded outputs of copy/loaded model are compared with the original (same exception class if the graph is not evaluable)'],
    design_ref='DESIGN.md section 4, C14',
    technique='Hypothesis-generated edit histories interpreted against a dict reference model with invariants after every step; '
              'copy/original non-interference and seeded-output differential',
    level_text='Exploration over edit histories: after every step the graph must be a DAG whose non-private nodes, ordered parents, '
               'classes, operations, observed keys and parameter names equal the reference; copies and loaded models must generate '
               'the same seeded outputs; any mutation of a copy must leave five observable aspects of the original unchanged.',
    level_note='Structure is read through model.nodes / get_parents / node state; trusts the 40-line reference semantics of become/remove.')
