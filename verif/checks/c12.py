"""C12 - distance nodes compute the stated metric; adaptive scales ignore batching.

Oracle: scipy.spatial.distance.cdist on the column-stacked summaries (computed by the oracle from
the same matrices), numpy population standard deviation, and direct evaluation of the scaled
Euclidean distance.
"""

from functools import partial

import numpy as np
from hypothesis import strategies as st
from scipy.spatial.distance import cdist

from ..core import CaseResult, Part, Violation, must_not_raise
from ..runner import Check

P = 'C12'
METRICS = ['euclidean', 'sqeuclidean', 'cityblock', 'chebyshev', 'canberra', 'braycurtis', 'cosine',
           'minkowski', 'minkowski-w', 'euclidean-w', 'seuclidean', 'mahalanobis', 'callable']


def cols(S, a=0, b=1, as_int=False, batch_size=None):
    """Summary: columns a..b of the simulator matrix; width-1 summaries are 1-D arrays."""
    out = S[:, a:b]
    if as_int:
        out = np.round(out).astype(int)
    if b - a == 1:
        out = out[:, 0]
    return out


def dummy_sim(batch_size=1, random_state=None, width=1):
    return random_state.randn(batch_size, width)


def my_metric(X, Y):
    return np.abs(X - Y).max(axis=1) + 0.5 * np.abs(X - Y).sum(axis=1)


def layout():
    """Widths and int-flags of 1-4 summaries."""
    return st.lists(st.tuples(st.integers(1, 3), st.integers(0, 3).map(lambda v: v == 0)), min_size=1, max_size=4)


def strat_distance(tier):
    return st.fixed_dictionaries({
        'layout': layout(), 'bs': st.integers(1, 8), 'metric': st.sampled_from(METRICS),
        'p': st.sampled_from([1.0, 1.5, 3.0]), 'data_seed': st.integers(0, 10 ** 6),
        'scale': st.sampled_from([1.0, 10.0, 0.1]),
        # afterwards the same node (or the node of a model copy) is evaluated against a second observed data set of the same shape
        'second_data': st.sampled_from([None, None, 'same-model', 'copy']),
    })


def _build(lay, obs, adaptive=False, metric=None, kw=None):
    import elfi
    W = sum(w for w, _ in lay)
    m = elfi.ElfiModel(name='c12model')
    elfi.Prior('uniform', 0, 1, model=m, name='t')
    S = elfi.Simulator(partial(dummy_sim, width=W), model=m, name='S', observed=obs)
    sums = []
    a = 0
    fns = []
    for i, (w, as_int) in enumerate(lay):
        fn = partial(cols, a=a, b=a + w, as_int=as_int)
        fns.append(fn)
        sums.append(elfi.Summary(fn, S, model=m, name='s%d' % i))
        a += w
    if adaptive:
        elfi.AdaptiveDistance(*sums, model=m, name='d')
    else:
        elfi.Distance(metric, *sums, model=m, name='d', **(kw or {}))
    return m, fns


def run_distance(case):
    lay = [tuple(x) for x in case['layout']]
    W = sum(w for w, _ in lay)
    rs = np.random.RandomState(case['data_seed'])
    bs = case['bs']
    simM = rs.randn(bs, W) * 3 * case['scale']
    obsM = rs.randn(1, W) * 3 * case['scale']
    name = case['metric']
    kw = {}
    metric = name
    if name == 'minkowski':
        kw = {'p': case['p']}
    elif name == 'minkowski-w':
        metric = 'minkowski'
        kw = {'p': case['p'], 'w': rs.uniform(0.2, 3.0, size=W)}
    elif name == 'euclidean-w':
        metric = 'euclidean'
        kw = {'w': rs.uniform(0.2, 3.0, size=W)}
    elif name == 'seuclidean':
        kw = {'V': rs.uniform(0.2, 3.0, size=W)}
    elif name == 'mahalanobis':
        A = rs.randn(W, W)
        kw = {'VI': A.dot(A.T) + W * np.eye(W)}
    elif name == 'callable':
        metric = my_metric
    ctx = 'metric=%s kwargs=%r layout=%r batch_size=%d data_seed=%d' % (name, sorted(kw), lay, bs, case['data_seed'])
    with must_not_raise(P, 'Distance node; ' + ctx):
        m, fns = _build(lay, obsM, metric=metric, kw=dict(kw))
        got = m['d'].generate(bs, with_values={'S': simM})
    X = np.column_stack([fn(simM) for fn in fns])
    Y = np.concatenate([np.atleast_2d(fn(obsM)) for fn in fns], axis=1)
    if name == 'callable':
        ref = my_metric(X, Y)
    else:
        ref = cdist(X, Y, metric=metric, **kw)[:, 0]
    got = np.asarray(got)
    if got.shape != (bs,):
        raise Violation('C12:distance-shape', 'distance output has shape %r, expected (%d,); %s' % (got.shape, bs, ctx))
    if not np.allclose(got, ref, rtol=1e-12, atol=0, equal_nan=True):
        raise Violation('C12:distance-value', 'distance node gives %r but cdist on the column-stacked summaries gives %r; %s'
                        % (got.tolist(), ref.tolist(), ctx))
    labels = ['metric=' + name, 'bs=1' if bs == 1 else 'bs>1']
    second = case.get('second_data')
    if second:
        # the SAME node (or the node of a copy of the model, which shares its operation) against a second observed data set of the
        # same shape: the observed summaries are those of the model at the time of the evaluation
        obs2 = rs.randn(1, W) * 3 * case['scale'] + 1.0
        bs2 = 1 + (bs % 4)
        sim2 = rs.randn(bs2, W) * 3 * case['scale']
        with must_not_raise(P, 'Distance node after the observed data was replaced (%s); %s' % (second, ctx)):
            m2 = m.copy() if second == 'copy' else m
            m2.observed['S'] = obs2
            got2 = np.asarray(m2['d'].generate(bs2, with_values={'S': sim2}))
            back = np.asarray(m['d'].generate(bs, with_values={'S': simM})) if second == 'copy' else None
        X2 = np.column_stack([fn(sim2) for fn in fns])
        Y2 = np.concatenate([np.atleast_2d(fn(obs2)) for fn in fns], axis=1)
        ref2 = my_metric(X2, Y2) if name == 'callable' else cdist(X2, Y2, metric=metric, **kw)[:, 0]
        if got2.shape != (bs2,) or not np.allclose(got2, ref2, rtol=1e-12, atol=0, equal_nan=True):
            raise Violation('C12:distance-value-after-new-observed-data',
                            'after the observed data of the model%s was replaced the distance node gives %r but cdist against the stacked NEW observed summaries gives %r; %s'
                            % (' copy' if second == 'copy' else '', got2.tolist(), ref2.tolist(), ctx))
        if back is not None and not np.allclose(back, ref, rtol=1e-12, atol=0, equal_nan=True):
            raise Violation('C12:distance-value-after-new-observed-data', 'after a COPY of the model got other observed data the original distance node gives %r, expected %r; %s'
                            % (back.tolist(), ref.tolist(), ctx))
        labels.append('second-observed-data=' + second)
    vec = any(w > 1 for w, _ in lay)
    mixed = any(i for _, i in lay) and not all(i for _, i in lay)
    if mixed:
        labels.append('mixed-int-float-summaries')
    if lay[0][1] and mixed:
        labels.append('int-summary-first')
    if vec:
        labels.append('vector-summary')
    return CaseResult(labels, True if (len(lay) >= 2 and vec) else None)


# ------------------------------------------------------------------ adaptive distance

def strat_adaptive(tier):
    return st.fixed_dictionaries({
        'layout': layout(), 'data_seed': st.integers(0, 10 ** 6),
        'rounds': st.lists(st.fixed_dictionaries({
            'n': st.integers(2, 200 if tier == 'thorough' else 80),
            'cuts': st.lists(st.integers(0, 10 ** 6), min_size=0, max_size=9),
            'cuts2': st.lists(st.integers(0, 10 ** 6), min_size=0, max_size=9),
        }), min_size=1, max_size=4),
        'bs': st.integers(1, 6), 'offset': st.sampled_from([0.0, 5.0, 100.0]), 'scale': st.sampled_from([1.0, 20.0, 0.2]),
        'mixed_scales': st.booleans(),
    })


def _partition(n, cuts):
    pts = sorted(set(c % (n - 1) + 1 for c in cuts)) if n > 1 else []
    edges = [0] + pts + [n]
    return [(a, b) for a, b in zip(edges, edges[1:]) if b > a]


def run_adaptive(case):
    lay = [tuple(x) for x in case['layout']]
    W = sum(w for w, _ in lay)
    rs = np.random.RandomState(case['data_seed'])
    # per-column magnitudes over many orders (a summary of order 1e-9 next to one of order 1e2)
    colscale = np.array([1.0, 250.0, 4e-9, 0.03, 1.0, 1e-6, 1.0, 1e4, 1.0, 1.0, 1.0, 1.0])[rs.permutation(12)[:W]] if case.get('mixed_scales') else np.ones(W)
    obsM = (rs.randn(1, W) * case['scale'] + case['offset']) * colscale
    bs = case['bs']
    evalM = (rs.randn(bs, W) * case['scale'] * 2 + case['offset']) * colscale
    ctx = 'layout=%r data_seed=%d rounds=%r' % (lay, case['data_seed'], [(r['n'], len(r['cuts'])) for r in case['rounds']])
    with must_not_raise(P, 'building AdaptiveDistance model; ' + ctx):
        m, fns = _build(lay, obsM, adaptive=True)
        m2, _ = _build(lay, obsM, adaptive=True)
        ad, ad2 = m['d'], m2['d']
    Xe = np.column_stack([fn(evalM) for fn in fns]).astype(float)
    Yo = np.concatenate([np.atleast_2d(fn(obsM)) for fn in fns], axis=1).astype(float)
    scales = []
    labels = []
    prev_cols = None
    maxparts = 0
    for ri, rnd in enumerate(case['rounds']):
        n = rnd['n']
        data = (rs.randn(n, W) * case['scale'] * (1 + ri) + case['offset']) * colscale
        rows = np.column_stack([fn(data) for fn in fns]).astype(float)
        sd = rows.std(axis=0)
        if np.any(sd == 0):
            return CaseResult(['zero-variance-summary'], None)
        p1, p2 = _partition(n, rnd['cuts']), _partition(n, rnd['cuts2'])
        maxparts = max(maxparts, len(p1))
        with must_not_raise(P, 'add_data; ' + ctx):
            for a, b in p1:
                ad.add_data(*[fn(data[a:b]) for fn in fns])
            for a, b in p2:
                ad2.add_data(*[fn(data[a:b]) for fn in fns])
        tol = 1e-8 * (1 + np.abs(rows.mean(axis=0)) / sd)
        s1 = np.asarray(ad.state['scale'], dtype=float)
        s2 = np.asarray(ad2.state['scale'], dtype=float)
        if s1.shape != sd.shape or np.any(np.abs(s1 - sd) > tol * sd):
            raise Violation('C12:adaptive-scale', 'round %d: scale %r after add_data calls of sizes %r, population sd of the %d rows is %r; %s'
                            % (ri, s1.tolist(), [b - a for a, b in p1], n, sd.tolist(), ctx))
        if np.any(np.abs(s1 - s2) > 2 * tol * sd):
            raise Violation('C12:adaptive-scale-partition-dependent', 'round %d: partitions %r and %r of the same data give scales %r and %r; %s'
                            % (ri, [b - a for a, b in p1], [b - a for a, b in p2], s1.tolist(), s2.tolist(), ctx))
        with must_not_raise(P, 'update_distance / generate; ' + ctx):
            before = np.asarray(ad.generate(bs, with_values={'S': evalM}))
            ad.update_distance()
            ad2.update_distance()
            after = np.asarray(ad.generate(bs, with_values={'S': evalM}))
        scales.append(sd)
        k = len(scales)
        if after.shape != (bs, k + 1):
            raise Violation('C12:adaptive-shape', 'after %d update(s) the distance output has shape %r, expected (%d, %d); %s' % (k, after.shape, bs, k + 1, ctx))
        # the distance is judged with the scale elfi reports (the scale itself was compared with the population sd above, with a
        # tolerance that reflects its conditioning): a tiny sd next to a large mean would otherwise leak into this comparison
        newest = np.sqrt((((Xe - Yo) / s1) ** 2).sum(axis=1))
        if not np.allclose(after[:, -1], newest, rtol=1e-9, atol=0):
            raise Violation('C12:adaptive-newest-distance', 'round %d: newest distance %r, Euclidean distance of summaries divided by the scale %r is %r; %s'
                            % (ri, after[:, -1].tolist(), sd.tolist(), newest.tolist(), ctx))
        b2 = before.reshape(bs, -1)
        if not np.array_equal(after[:, :k], b2):
            raise Violation('C12:adaptive-earlier-distances-changed', 'round %d: earlier distance columns changed by the update: %r -> %r; %s'
                            % (ri, b2.tolist(), after[:, :k].tolist(), ctx))
        first = np.sqrt(((Xe - Yo) ** 2).sum(axis=1))
        if not np.allclose(after[:, 0], first, rtol=1e-10, atol=0):
            raise Violation('C12:adaptive-first-distance', 'first distance is not the plain Euclidean distance; %s' % ctx)
    if case.get('mixed_scales'):
        labels.append('column-magnitudes-1e-9..1e4')
    vecfirst = lay[0][0] > 1
    labels += ['rounds=%d' % len(case['rounds'])]
    if vecfirst:
        labels.append('vector-summary-first')
    if any(w > 1 for w, _ in lay):
        labels.append('vector-summary')
    if maxparts >= 3:
        labels.append('>=3-parts')
    if any((b - a) == 1 for r in case['rounds'] for a, b in _partition(r['n'], r['cuts'])):
        labels.append('single-row-call')
    nontrivial = True if ((len(lay) >= 2 and any(w > 1 for w, _ in lay)) or maxparts >= 3) else None
    return CaseResult(labels, nontrivial)


CHECK = Check(
    P, 'exploration',
    rule=('distance: 1-4 summaries of widths 1-3 (width-1 summaries as 1-D arrays, optionally integer valued), batch sizes 1-8, 13 metric '
          'configurations (scipy names with and without p/w/V/VI, a callable), evaluated through node.generate(with_values={simulator: '
          'matrix}) on a real model and compared with cdist on the column-stacked summaries; optionally the same node (or the node of a model copy) is evaluated again after the observed data was replaced by a second set of the same shape. adaptive: 1-4 adaptation rounds of 2-80 '
          '(thorough 200) rows, two random partitions of each round into add_data calls (incl. single-row calls), scale vs population sd, '
          'newest/earlier nested distances after update_distance. Non-trivial = >=2 summaries with a vector summary, or a partition '
          'with >=3 parts.'),
    parts=[Part('distance', run_distance, strategy=strat_distance, examples={'quick': 800, 'thorough': 48000}),
           Part('adaptive', run_adaptive, strategy=strat_adaptive, examples={'quick': 400, 'thorough': 16000})],
    assumptions=['scipy.spatial.distance.cdist is the reference metric', 'zero-variance summaries (infinite weights) are not generated',
                 'the end-to-end re-sorting of Rejection by the newest distance is checked in C01 (part adaptive-distance)'],
    design_ref='DESIGN.md section 4, C12',
    technique='Hypothesis-generated summary layouts/metrics/partitions against cdist and numpy definitions; partition-invariance '
              'metamorphic relation',
    level_text='Exploration: generated layouts x metrics x batch sizes compared with cdist to 1e-12; adaptive scale compared with the '
               'population sd for two independent partitions of every round; nested distances recomputed directly.',
    level_note='Trusts scipy cdist and numpy std; tolerances stated in DESIGN.md 2.7.')
