"""C20 - BSL: synthetic likelihood and its Metropolis-Hastings step are the stated ones.

Oracles: the published formulas written independently with numpy/scipy (standard, Warton ridge,
graphical lasso plumbing, Ghurye-Olkin unbiased estimator, mean / variance misspecification
adjustments); exact inverses and finite-difference Jacobians for the bounded-parameter transform;
an independent Metropolis-Hastings chain that replays the sampler's RandomState(seed) stream with
a stub likelihood and a logging simulator.
"""

import logging
import math
import warnings

import numpy as np
import scipy.stats as ss
from hypothesis import strategies as st
from scipy.special import gammaln

from ..core import CaseResult, Part, Violation, must_not_raise, time_limit
from ..runner import Check

P = 'C20'


def _spd(d, rs, cond):
    q, _ = np.linalg.qr(rs.randn(d, d))
    ev = np.exp(rs.uniform(0, np.log(cond), size=d)) * rs.uniform(0.2, 3.0)
    m = (q * ev).dot(q.T)
    return (m + m.T) / 2


# ------------------------------------------------------------------ likelihoods

def strat_lik(tier):
    return st.fixed_dictionaries({
        'variant': st.sampled_from(['standard', 'standard', 'whitened', 'warton', 'glasso', 'whitened-warton', 'whitened-glasso',
                                    'unbiased', 'unbiased', 'misspec-mean', 'misspec-variance']),
        'n': st.integers(10, 300), 'd': st.integers(1, 5), 'seed': st.integers(0, 10 ** 6), 'cond': st.sampled_from([1.0, 10.0, 100.0]),
        'far': st.sampled_from([0.0, 0.5, 2.0, 8.0]), 'penalty': st.sampled_from([0.0, 0.1, 0.5, 0.9, 1.0]),
        'glasso_penalty': st.sampled_from([0.0, 0.05, 0.3]),
        # whitened-glasso only: graphical lasso on the standardised summaries (no published-form reference is claimed for it; it is
        # judged by the relation 'whitening W == the same call on summaries whitened beforehand')
        'standardise': st.sampled_from([False, False, True]),
        # many summaries and / or summaries of a small or large scale (standard and robust variants): the covariance stays
        # well conditioned but its determinant leaves the double range
        'many': st.sampled_from([0, 0, 0, 40, 60, 150]), 'scale': st.sampled_from([1.0, 1.0, 1e-3, 0.05, 1e4]),
    })


def ref_mvn(y, mu, S):
    d = len(y)
    sign, logdet = np.linalg.slogdet(S)
    r = y - mu
    return -0.5 * (d * math.log(2 * math.pi) + logdet + r.dot(np.linalg.solve(S, r)))


def ref_wcon(k, nu):
    return -k * nu / 2.0 * math.log(2) - k * (k - 1) / 4.0 * math.log(math.pi) - sum(gammaln(0.5 * (nu - i)) for i in range(k))


def ref_ghurye_olkin(X, y):
    """Unbiased estimator of the normal density (Ghurye & Olkin 1969; Price et al. 2018, eq. 4)."""
    n, d = X.shape
    mu = X.mean(axis=0)
    M = (n - 1) * np.atleast_2d(np.cov(X, rowvar=False))
    r = (y - mu)[:, None]
    psi = M - r.dot(r.T) / (1.0 - 1.0 / n)
    ev = np.linalg.eigvalsh((psi + psi.T) / 2)
    if ev.min() <= 0:
        return -np.inf, ev.min()
    logdetM = np.linalg.slogdet(M)[1]
    logdetpsi = np.linalg.slogdet(psi)[1]
    val = (-0.5 * d * math.log(2 * math.pi) + ref_wcon(d, n - 2) - ref_wcon(d, n - 1) - 0.5 * d * math.log(1 - 1.0 / n)
           - 0.5 * (n - d - 2) * logdetM + 0.5 * (n - d - 3) * logdetpsi)
    return val, ev.min()


def run_lik(case):
    from elfi.methods.bsl import pdf_methods as pm
    warnings.simplefilter('ignore')
    logging.getLogger('elfi').setLevel(logging.ERROR)
    n, d, variant = case['n'], case['d'], case['variant']
    n = max(n, d + 6)
    if variant in ('glasso', 'whitened-glasso') and d == 1:
        d = 2                   # sklearn's graphical lasso needs at least two features
    scale = 1.0
    if variant in ('standard', 'misspec-mean', 'misspec-variance'):
        scale = case.get('scale', 1.0)
        if case.get('many'):
            d = case['many']
            n = max(n, 2 * d + 10)
    rs = np.random.RandomState(case['seed'])
    mu = rs.randn(d) * 2 * scale
    S0 = _spd(d, rs, case['cond']) * scale ** 2
    X = rs.multivariate_normal(mu, S0, size=n)
    y = mu + case['far'] * rs.randn(d) * np.sqrt(np.diag(S0))
    ctx = 'variant=%s n=%d d=%d seed=%d cond=%r far=%r penalty=%r scale=%r' % (variant, n, d, case['seed'], case['cond'], case['far'], case['penalty'], scale)
    xm = X.mean(axis=0)
    Sx = np.atleast_2d(np.cov(X, rowvar=False))
    labels = ['variant=' + variant, 'd=1' if d == 1 else ('d>1' if d <= 5 else 'd>=40')]
    if scale != 1.0:
        labels.append('scaled-summaries')
    tol = 1e-9 if d <= 5 else 1e-8
    rel = None       # (keyword arguments without the whitening, W): the call with whitening=W must equal the call on pre-whitened summaries
    if variant == 'standard':
        fn = pm.standard_likelihood()
        ref = ref_mvn(y, xm, Sx)
    elif variant == 'whitened':
        W = _spd(d, rs, 10.0) + 0.3 * rs.randn(d, d) * (d > 1)
        fn = pm.standard_likelihood(whitening=W)
        rel = ({}, W, 1e-9)
        Xw = X.dot(W.T)
        ref = ref_mvn(W.dot(y), Xw.mean(axis=0), np.atleast_2d(np.cov(Xw, rowvar=False)))
    elif variant in ('whitened-warton', 'whitened-glasso'):
        # whitening and shrinkage together: the summaries are whitened first, the shrinkage acts on the whitened covariance
        W = _spd(d, rs, 10.0) + 0.3 * rs.randn(d, d) * (d > 1)
        Xw = X.dot(W.T)
        Sw = np.atleast_2d(np.cov(Xw, rowvar=False))
        if variant == 'whitened-warton':
            pen = case['penalty']
            fn = pm.standard_likelihood(shrinkage='warton', penalty=pen, whitening=W)
            rel = (dict(shrinkage='warton', penalty=pen), W, 1e-9)
            g = 1 - pen
            Dm = np.sqrt(np.diag(Sw) + 1e-5)
            ref = ref_mvn(W.dot(y), Xw.mean(axis=0), np.outer(Dm, Dm) * (g * (Sw / np.outer(Dm, Dm)) + (1 - g) * np.eye(d)))
            tol = 1e-8
        else:
            from sklearn.covariance import graphical_lasso
            pen = max(case['glasso_penalty'], 0.05)
            sd_flag = bool(case.get('standardise'))
            fn = pm.standard_likelihood(shrinkage='glasso', penalty=pen, whitening=W, standardise=sd_flag)
            rel = (dict(shrinkage='glasso', penalty=pen, standardise=sd_flag), W, 1e-3)
            try:
                if sd_flag:
                    graphical_lasso(np.atleast_2d(np.corrcoef(Xw, rowvar=False)), alpha=pen, max_iter=200)     # solver refusal only
                    ref = None
                    labels.append('glasso-standardise')
                else:
                    ref = ref_mvn(W.dot(y), Xw.mean(axis=0), graphical_lasso(Sw, alpha=pen, max_iter=200)[0])
            except FloatingPointError:
                # scikit-learn's solver refuses this (too ill-conditioned) covariance: there is no reference value
                return CaseResult(['variant=' + variant, 'glasso-solver-refused'], None)
            tol = 1e-7
    elif variant == 'warton':
        pen = case['penalty']
        fn = pm.standard_likelihood(shrinkage='warton', penalty=pen)
        g = 1 - pen                                   # ridge: D^1/2 (g R + (1-g) I) D^1/2 with the documented 1e-5 regulariser in D
        Dm = np.sqrt(np.diag(Sx) + 1e-5)
        R = Sx / np.outer(Dm, Dm)
        ref = ref_mvn(y, xm, np.outer(Dm, Dm) * (g * R + (1 - g) * np.eye(d)))
        tol = 1e-8
    elif variant == 'glasso':
        from sklearn.covariance import graphical_lasso
        pen = case['glasso_penalty']
        fn = pm.standard_likelihood(shrinkage='glasso', penalty=pen)
        if pen == 0:
            ref = ref_mvn(y, xm, Sx)
            tol = 1e-6
        else:
            try:
                ref = ref_mvn(y, xm, graphical_lasso(Sx, alpha=pen, max_iter=200)[0])
            except FloatingPointError:
                return CaseResult(['variant=' + variant, 'glasso-solver-refused'], None)
            tol = 1e-7
    elif variant == 'unbiased':
        fn = pm.unbiased_likelihood()
        ref, evmin = ref_ghurye_olkin(X, y)
        tol = 1e-8
        if abs(evmin) < 1e-8 * np.abs(np.diag(Sx)).max() * n:
            return CaseResult(labels + ['psi-borderline'], None)
        if ref == -np.inf:
            labels.append('psi-not-positive-definite')
    else:
        adj = 'mean' if variant == 'misspec-mean' else 'variance'
        fn = pm.robust_likelihood(adj)
        gamma = rs.uniform(-1.5, 1.5, size=d) if adj == 'mean' else rs.uniform(0.0, 1.5, size=d)
        sd = np.sqrt(np.diag(Sx))
        if adj == 'mean':
            ref = ref_mvn(y, xm + sd * gamma, Sx)
        else:
            ref = ref_mvn(y, xm, Sx + np.diag((sd * gamma) ** 2))
    with must_not_raise(P, 'evaluating the likelihood; ' + ctx):
        if variant.startswith('misspec'):
            got = fn(X.copy(), y[None, :].copy(), gamma=gamma.copy())
        else:
            got = fn(X.copy(), y[None, :].copy())
    # the caller's matrices are the caller's: evaluating again on the SAME arrays (no copies) gives the same value, and the
    # arrays still hold the simulations (a likelihood is evaluated many times on one set of simulations, e.g. at several
    # observed vectors)
    Xs, ys = X.copy(), y[None, :].copy()
    with must_not_raise(P, 'evaluating the likelihood twice on the same arrays; ' + ctx):
        if variant.startswith('misspec'):
            r1 = fn(Xs, ys, gamma=gamma.copy())
            r2 = fn(Xs, ys, gamma=gamma.copy())
        else:
            r1 = fn(Xs, ys)
            r2 = fn(Xs, ys)
    if not (np.array_equal(Xs, X) and np.array_equal(ys, y[None, :])):
        raise Violation('C20:likelihood-overwrites-its-input', 'after the evaluation the simulated / observed summaries handed over are no longer what they were; %s' % ctx)
    if not np.array_equal(np.asarray(r1), np.asarray(r2), equal_nan=True):
        raise Violation('C20:likelihood-overwrites-its-input', 'two evaluations on the same arrays give %r and %r; %s' % (r1, r2, ctx))
    gv = float(np.reshape(got, -1)[0])
    if np.size(got) != 1:
        raise Violation('C20:likelihood-shape', 'likelihood returned %r; %s' % (got, ctx))
    if rel is not None:
        kw, W_, rtol_ = rel
        with must_not_raise(P, 'evaluating the likelihood on summaries whitened beforehand; ' + ctx):
            g2 = float(np.reshape(pm.standard_likelihood(**kw)(X.dot(W_.T), W_.dot(y)[None, :]), -1)[0])
        if not (abs(gv - g2) <= rtol_ * (1 + abs(g2)) or (gv == g2)):
            raise Violation('C20:whitening-is-not-whitening-the-summaries', 'log-likelihood with whitening=W is %r, the same likelihood (%r) on the summaries '
                            'whitened beforehand (ssx W^T, W ssy) gives %r; %s' % (gv, kw, g2, ctx))
    if ref is None:
        pass
    elif ref == -np.inf:
        if gv != -np.inf:
            raise Violation('C20:unbiased-psi-not-positive-definite', 'the matrix psi is not positive definite (min eigenvalue %.3g) so the unbiased density estimate is 0, '
                            'but the log-likelihood is %r; %s' % (evmin, gv, ctx))
    elif not abs(gv - ref) <= tol * (1 + abs(ref)):
        raise Violation('C20:likelihood-value:' + variant.split('-')[0], 'log-likelihood %r, the published formula gives %r; %s' % (gv, ref, ctx))
    return CaseResult(labels, True if (d >= 2 and case['cond'] > 1) else None)


# ------------------------------------------------------------------ transform

BTYPES = ['two-sided', 'lower', 'upper', 'none']


def strat_tr(tier):
    return st.fixed_dictionaries({
        'types': st.lists(st.sampled_from(BTYPES), min_size=1, max_size=4), 'seed': st.integers(0, 10 ** 6),
        'a': st.sampled_from([-3.0, 0.0, 0.5, 10.0]), 'w': st.sampled_from([0.1, 1.0, 7.0]),
        # transformed values incl. far out (|theta~| up to 100: parameters 1e43 away from / 1e-43 close to a one-sided bound)
        'tilde': st.lists(st.one_of(st.floats(-12, 12, allow_nan=False), st.floats(-12, 12, allow_nan=False), st.floats(-100, 100, allow_nan=False)), min_size=4, max_size=4),
        # magnitude of the parameters used for back(forward(theta)): distances from a one-sided bound at 0 from 1e-20 to 1e20
        'far_theta': st.booleans(),
    })


def _bounds(types, a, w):
    out = []
    for t in types:
        out.append({'two-sided': (a, a + w), 'lower': (a, np.inf), 'upper': (-np.inf, a + w), 'none': (-np.inf, np.inf)}[t])
    return np.array(out, dtype=float)


def ref_forward(theta, bound):
    out = []
    for x, (a, b) in zip(theta, bound):
        if np.isfinite(a) and np.isfinite(b):
            out.append(math.log((x - a) / (b - x)))
        elif np.isfinite(b):
            out.append(-math.log(b - x))
        elif np.isfinite(a):
            out.append(math.log(x - a))
        else:
            out.append(x)
    return np.array(out)


def ref_back(tt, bound):
    out = []
    for y, (a, b) in zip(tt, bound):
        if np.isfinite(a) and np.isfinite(b):
            out.append(a + (b - a) / (1 + math.exp(-y)))
        elif np.isfinite(b):
            out.append(b - math.exp(-y))
        elif np.isfinite(a):
            out.append(a + math.exp(y))
        else:
            out.append(y)
    return np.array(out)


def ref_logjac(tt, bound):
    """sum_i log |d theta_i / d theta~_i| at theta~."""
    tot = 0.0
    for y, (a, b) in zip(tt, bound):
        if np.isfinite(a) and np.isfinite(b):
            tot += math.log(b - a) - y - 2 * math.log1p(math.exp(-y)) if y > 0 else math.log(b - a) + y - 2 * math.log1p(math.exp(y))
        elif np.isfinite(b):
            tot += -y
        elif np.isfinite(a):
            tot += y
    return tot


def run_tr(case):
    from elfi.methods.inference.bsl import BSL
    types = case['types']
    bound = _bounds(types, case['a'], case['w'])
    p = len(types)
    tt = np.array(case['tilde'][:p])
    ctx = 'bound types=%r bounds=%r theta~=%r' % (types, bound.tolist(), tt.tolist())
    with must_not_raise(P, 'transforms; ' + ctx):
        theta = BSL._para_logit_back_transform(tt.copy(), bound)
        again = BSL._para_logit_transform(theta.copy(), bound)
        logJ = float(BSL._jacobian_logit_transform(tt.copy(), bound))
    ref_theta = ref_back(tt, bound)
    if not np.allclose(theta, ref_theta, rtol=1e-12, atol=1e-12):
        raise Violation('C20:back-transform', 'back-transform of %r is %r, expected %r; %s' % (tt.tolist(), theta.tolist(), ref_theta.tolist(), ctx))
    for i, (x, (a, b)) in enumerate(zip(theta, bound)):
        # (at saturation the last rounding of a + (b - a) * s may land one unit in the last place beyond the bound)
        ulp = 4 * np.finfo(float).eps * max(abs(a) if np.isfinite(a) else 0.0, abs(b) if np.isfinite(b) else 0.0, 1e-300)
        if not (a - ulp <= x <= b + ulp):
            raise Violation('C20:back-transform-outside-bounds', 'component %d = %r outside [%r, %r]; %s' % (i, x, a, b, ctx))
    # inverse: forward(back(t)) == t wherever the back-transform did not saturate in floating point
    sat = np.array([(np.isfinite(a) and x - a <= 1e-9 * max(1, abs(a))) or (np.isfinite(b) and b - x <= 1e-9 * max(1, abs(b))) for x, (a, b) in zip(theta, bound)])
    ok = ~sat
    if not np.allclose(again[ok], tt[ok], rtol=1e-6, atol=1e-6):
        raise Violation('C20:transform-not-inverted', 'forward(back(theta~)) = %r for theta~ = %r; %s' % (again.tolist(), tt.tolist(), ctx))
    # and back(forward(theta)) == theta for theta strictly inside
    rs = np.random.RandomState(case['seed'])
    th = []
    for (a, b) in bound:
        if np.isfinite(a) and np.isfinite(b):
            th.append(a + rs.uniform(0.01, 0.99) * (b - a))
        elif np.isfinite(b):
            th.append(b - (10.0 ** rs.uniform(-20, 20) if (case.get('far_theta') and b == 0) else rs.exponential(2.0) + 1e-3))
        elif np.isfinite(a):
            th.append(a + (10.0 ** rs.uniform(-20, 20) if (case.get('far_theta') and a == 0) else rs.exponential(2.0) + 1e-3))
        else:
            th.append(rs.randn() * 3)
    th = np.array(th)
    with must_not_raise(P, 'transforms; ' + ctx):
        f = BSL._para_logit_transform(th.copy(), bound)
        bk = BSL._para_logit_back_transform(f.copy(), bound)
    if not np.allclose(bk, th, rtol=1e-10, atol=1e-12 if not case.get('far_theta') else 0.0):
        raise Violation('C20:transform-not-inverted', 'back(forward(%r)) = %r; %s' % (th.tolist(), bk.tolist(), ctx))
    if not np.allclose(f, ref_forward(th, bound), rtol=1e-12, atol=1e-12):
        raise Violation('C20:forward-transform', 'forward(%r) = %r, expected %r; %s' % (th.tolist(), f.tolist(), ref_forward(th, bound).tolist(), ctx))
    # Jacobian by central differences of elfi's own back-transform
    num = 0.0
    for i in range(p):
        h = 1e-5
        e = np.zeros(p)
        e[i] = h
        dv = (BSL._para_logit_back_transform(tt + e, bound)[i] - BSL._para_logit_back_transform(tt - e, bound)[i]) / (2 * h)
        num += math.log(abs(dv)) if dv != 0 else -np.inf
    rj = ref_logjac(tt, bound)
    if np.isfinite(num) and not abs(num - rj) <= 1e-5 * (1 + abs(rj)):
        return CaseResult(['finite-difference-unreliable'], None)
    if not abs(logJ - rj) <= 1e-9 * (1 + abs(rj)):
        raise Violation('C20:jacobian', 'log-Jacobian at theta~=%r is %r, sum of log|d theta_i / d theta~_i| is %r (finite differences %r); %s'
                        % (tt.tolist(), logJ, rj, num, ctx))
    kinds = set(types)
    return CaseResult(['types=' + '+'.join(sorted(kinds))], True if ('two-sided' in kinds and ({'lower', 'upper'} & kinds)) else None)


# ------------------------------------------------------------------ the Metropolis-Hastings chain

LOG = {'sim': 0, 'lik': []}


class NegExpon(object):
    """theta = b - Exp(1): support (-inf, b)."""

    @classmethod
    def rvs(cls, b, size=1, random_state=None):
        return b - ss.expon.rvs(size=size, random_state=random_state)

    @classmethod
    def pdf(cls, x, b):
        return ss.expon.pdf(b - x)

    @classmethod
    def logpdf(cls, x, b):
        return ss.expon.logpdf(b - x)


def mh_sim(*params, batch_size=1, random_state=None):
    LOG['sim'] += 1
    p = np.column_stack([np.asarray(x, dtype=float) for x in params])
    LOG.setdefault('params', []).append(p.copy())          # what the simulator was handed, columns in MODEL parameter order
    return p.sum(axis=1)[:, None] + random_state.randn(batch_size, 2)


def summ0(s):
    return s[:, 0]


def summ1(s):
    return s[:, 1]


def stub_likelihood(ssx, ssy):
    """A cheap deterministic stand-in for the synthetic likelihood; logs what it returned."""
    v = -0.5 * float(((ssx.mean(axis=0) - np.ravel(ssy)) ** 2).sum()) * 3.0
    LOG['lik'].append(v)
    return np.array([v])


def strat_mh(tier):
    return st.fixed_dictionaries({
        'types': st.lists(st.sampled_from(BTYPES), min_size=1, max_size=3),
        'transform': st.sampled_from(['all', 'all', 'none']),
        'n': st.integers(3, 30), 'n_sim_round': st.sampled_from([2, 4, 6]), 'bs_div': st.sampled_from([1, 2]),
        'sigma': st.sampled_from([0.05, 0.3, 1.0, 3.0]), 'seed': st.integers(0, 2 ** 31 - 1), 'obs': st.sampled_from([0.0, 1.0, 3.0]),
        # the order in which sample(param_names=...) lists the parameters (None = model order)
        'order': st.one_of(st.none(), st.permutations([0, 1, 2])),
        # a second sample() call on the same BSL object (a pilot run followed by the real run): (n, start away from the first start?)
        'second': st.one_of(st.none(), st.none(), st.tuples(st.integers(3, 15), st.booleans())),
        # transform bounds LOOSER than the prior support, per parameter (0 same, 1 no bound at all, 2 every finite side 1.0 further out,
        # 3 upper side dropped): proposals made in transformed space can then leave the prior support
        'loosen': st.one_of(st.just([0, 0, 0]), st.lists(st.sampled_from([0, 1, 2, 3]), min_size=3, max_size=3)),
    })


def _loosen(bound, choices):
    out = np.array(bound, dtype=float)
    for i, c in enumerate(choices[:len(out)]):
        lo, hi = out[i]
        if c == 1:
            lo, hi = -np.inf, np.inf
        elif c == 2:
            lo, hi = lo - 1.0, hi + 1.0
        elif c == 3:
            hi = np.inf
        out[i] = (lo, hi)
    return out


def run_mh(case):
    import elfi
    warnings.simplefilter('ignore')
    logging.getLogger('elfi').setLevel(logging.ERROR)
    types = case['types']
    k = len(types)
    names = ['p%d' % i for i in range(k)]
    a, w = 0.0, 2.0
    bound = _bounds(types, a, w)
    loosened = bool(case.get('loosen')) and any(case['loosen'][:k]) and case['transform'] == 'all'
    if loosened:
        bound = _loosen(bound, case['loosen'])      # from here on `bound` is the TRANSFORM's bound; the prior support stays in `dists`
    m = elfi.ElfiModel(name='c20model')
    ps, dists = [], []
    for nm, t in zip(names, types):
        if t == 'two-sided':
            ps.append(elfi.Prior('uniform', a, w, model=m, name=nm))
            dists.append(lambda x: ss.uniform(a, w).logpdf(x))
        elif t == 'lower':
            ps.append(elfi.Prior('expon', a, 1.0, model=m, name=nm))
            dists.append(lambda x: ss.expon(a, 1.0).logpdf(x))
        elif t == 'upper':
            ps.append(elfi.Prior(NegExpon, a + w, model=m, name=nm))
            dists.append(lambda x: ss.expon.logpdf(a + w - x))
        else:
            ps.append(elfi.Prior('norm', 1.0, 1.0, model=m, name=nm))
            dists.append(lambda x: ss.norm(1.0, 1.0).logpdf(x))
    S = elfi.Simulator(mh_sim, *ps, observed=np.full((1, 2), case['obs']), model=m, name='S')
    param_names = None
    if case.get('order') is not None and k > 1:
        perm = [i for i in case['order'] if i < k]
        if perm != list(range(k)):
            param_names = [names[i] for i in perm]
            types = [types[i] for i in perm]
            dists = [dists[i] for i in perm]
            bound = bound[perm]
    elfi.Summary(summ0, S, model=m, name='s0')
    elfi.Summary(summ1, S, model=m, name='s1')
    n, nsr = case['n'], case['n_sim_round']
    bs = nsr // case['bs_div']
    sigma = np.eye(k) * case['sigma'] ** 2
    params0 = np.array([1.0] * k)
    use_tr = case['transform'] == 'all'
    ctx = 'prior types=%r transform bounds=%r param_names=%r transform=%s n=%d n_sim_round=%d batch_size=%d sigma=%r seed=%d' % (types, bound.tolist(), param_names, case['transform'], n, nsr, bs, case['sigma'], case['seed'])
    LOG['sim'] = 0
    LOG['lik'] = []
    LOG['params'] = []
    with must_not_raise(P, 'BSL.sample; ' + ctx):
        with np.errstate(all='ignore'):
            bsl = elfi.BSL(m, nsr, ['s0', 's1'], likelihood=stub_likelihood, seed=case['seed'], batch_size=bs)
            with time_limit(300, 'C20:bsl-hangs', 'BSL.sample'):
                res = bsl.sample(n, sigma, params0=params0.copy(), param_names=param_names,
                                 logit_transform_bound=[tuple(b) for b in bound] if use_tr else None, bar=False)
    rs = np.random.RandomState(case['seed'])
    labels0 = []
    out = _judge_run(case, bsl, res, rs, n, params0, k, dists, bound, sigma, use_tr, nsr, bs, ctx, types, param_names)
    if out is None:
        return CaseResult(['borderline-acceptance'], None)
    if case.get('second') is not None:
        # the same object again: the generator stream goes on, everything else starts afresh
        n2, away = case['second']
        params2 = np.array([0.5 if away else 1.0] * k)
        ctx2 = 'SECOND sample(%d) call on the same object, params0=%r, after: %s' % (n2, params2.tolist(), ctx)
        LOG['sim'] = 0
        LOG['lik'] = []
        LOG['params'] = []
        with must_not_raise(P, 'second BSL.sample; ' + ctx2):
            with np.errstate(all='ignore'):
                with time_limit(300, 'C20:bsl-hangs', 'BSL.sample'):
                    res2 = bsl.sample(n2, sigma, params0=params2.copy(), param_names=param_names,
                                      logit_transform_bound=[tuple(b) for b in bound] if use_tr else None, bar=False)
        out2 = _judge_run(case, bsl, res2, rs, n2, params2, k, dists, bound, sigma, use_tr, nsr, bs, ctx2, types, param_names)
        if out2 is None:
            return CaseResult(['borderline-acceptance'], None)
        labels0.append('second-sample-call')
    labels, nontrivial = out
    if loosened:
        labels0.append('transform-bounds-looser-than-prior-support')
    return CaseResult(labels + labels0, nontrivial)


def _judge_run(case, bsl, res, rs, n, params0, k, dists, bound, sigma, use_tr, nsr, bs, ctx, types, param_names):
    """Replay one sample() call with the reference Metropolis-Hastings chain on the generator stream `rs` (which is advanced)."""
    chain = np.array(bsl.state['params'])
    liks = list(LOG['lik'])
    nsim_calls = LOG['sim']

    def logprior(th):
        with np.errstate(all='ignore'):
            return float(sum(dists[i](th[i]) for i in range(k)))
    ref = np.zeros((n, k))
    ref[0] = params0
    evaluated = [np.array(params0, dtype=float)]
    li = 0
    if not liks:
        raise Violation('C20:no-likelihood-evaluated', 'the likelihood was never evaluated; ' + ctx)
    logpost = liks[li] + logprior(params0)
    li += 1
    n_out = 0
    borderline = False
    n_acc = n_rej = 0
    for i in range(1, n):
        cur = ref[i - 1]
        if use_tr:
            cur_t = ref_forward(cur, bound)
            prop_t = rs.multivariate_normal(cur_t, sigma)
            prop = ref_back(prop_t, bound)
        else:
            prop = rs.multivariate_normal(cur, sigma)
        lp = logprior(prop)
        if not np.isfinite(lp):
            ref[i] = cur
            n_out += 1
            continue
        if li >= len(liks):
            raise Violation('C20:too-few-simulation-rounds', 'iteration %d has a proposal %r with finite prior density but no synthetic likelihood was evaluated for it; %s' % (i, prop.tolist(), ctx))
        lpost_new = liks[li] + lp
        evaluated.append(np.array(prop, dtype=float))
        li += 1
        logr = lpost_new - logpost
        if use_tr:
            logr += ref_logjac(ref_forward(prop, bound), bound) - ref_logjac(cur_t, bound)
        ratio = math.exp(max(-700.0, min(700.0, logr)))
        u = rs.uniform()
        if abs(u - min(1.0, ratio)) < 1e-7:
            borderline = True
        if u < min(1.0, ratio):
            ref[i] = prop
            logpost = lpost_new
            n_acc += 1
        else:
            ref[i] = cur
            n_rej += 1
    if borderline:
        return None
    if li != len(liks):
        raise Violation('C20:simulated-for-rejected-prior', '%d synthetic likelihoods were evaluated but only %d proposals had finite prior density (%d proposals outside the prior support must be rejected without simulating); %s'
                        % (len(liks), li, n_out, ctx))
    if nsim_calls != li * (nsr // bs):
        raise Violation('C20:simulator-calls', 'simulator ran %d batches, expected %d rounds x %d; %s' % (nsim_calls, li, nsr // bs, ctx))
    # every simulation round was run AT the point whose likelihood it estimates (columns of the chain follow param_names, the
    # simulator's arguments follow the model's parameter order)
    model_names = ['p%d' % i for i in range(k)]
    chain_names = list(param_names) if param_names is not None else model_names
    per_round = nsr // bs
    for e, pt in enumerate(evaluated):
        want = np.array([pt[chain_names.index(nm)] for nm in model_names])
        for c in range(per_round):
            gotp = np.asarray(LOG['params'][e * per_round + c], dtype=float)
            if gotp.shape[1] != k or not np.allclose(gotp, want[None, :], rtol=1e-12, atol=1e-12):
                raise Violation('C20:simulated-at-another-point',
                                'likelihood evaluation %d is for the point %r (parameters %r) but its simulator batch %d received %r for the model parameters %r; %s'
                                % (e, pt.tolist(), chain_names, c, gotp[0].tolist(), model_names, ctx))
    if chain.shape != ref.shape or not np.allclose(chain, ref, rtol=1e-8, atol=1e-10):
        kbad = int(np.flatnonzero(~np.all(np.isclose(chain, ref, rtol=1e-8, atol=1e-10), axis=1))[0])
        raise Violation('C20:chain-differs-from-metropolis-hastings',
                        'state %d of the chain is %r; the Metropolis-Hastings chain of this seed (accept iff u < min(1, posterior ratio x Jacobian ratio), prior-outside proposals rejected unsimulated) has %r; %s'
                        % (kbad, chain[kbad].tolist(), ref[kbad].tolist(), ctx))
    arr = np.asarray(res.samples_array) if hasattr(res, 'samples_array') else None
    labels = ['transform=' + case['transform'], 'types=' + '+'.join(sorted(set(types)))]
    if param_names is not None:
        labels.append('param_names-in-another-order')
    if n_out:
        labels.append('proposal-outside-prior-support')
    kinds = set(types)
    informative = n_acc > 0 and n_rej > 0
    return labels, (True if (informative and use_tr and 'two-sided' in kinds and ({'lower', 'upper'} & kinds)) or (informative and n_out > 0) else None)


CHECK = Check(
    P, 'exploration',
    rule=('likelihood: 10-300 simulations x 1-5 summaries drawn from a random mean / SPD covariance (condition 1-100), observed vector near or '
          'far (0-8 sd), variants standard, whitened (random well-conditioned matrix), Warton ridge (penalty 0-1), graphical lasso (penalty 0 '
          'and > 0), unbiased (Ghurye-Olkin), misspecification mean / variance with random gamma, and for the standard / misspecification variants also 40-150 summaries and summaries of scale 1e-3..1e4 (determinant outside the double range); transform: 1-4 parameters with two-sided, '
          'lower-only, upper-only and no bounds, theta~ in [-12, 12] or up to +-100 and theta strictly inside (1e-20..1e20 away from a one-sided bound at 0); every likelihood also evaluated twice on the same arrays; MH: whole BSL chains of 3-30 iterations on a '
          'real model with a stub likelihood and a logging simulator, with and without the bounded-parameter transform, proposal scales '
          '0.05-3 (so that proposals leave the prior support), transform bounds equal to or LOOSER than the prior support (a proposal made in transformed space can then fall outside the support), parameters listed in model or permuted order, optionally a SECOND sample() call on the same object. Non-trivial: d >= 2 with correlated summaries; a two-sided together with a '
          'one-sided bound; an MH chain with accepted and rejected moves that uses mixed bounds or had a proposal outside the prior support.'),
    parts=[Part('likelihood', run_lik, strategy=strat_lik, examples={'quick': 600, 'thorough': 32000}),
           Part('transform', run_tr, strategy=strat_tr, examples={'quick': 800, 'thorough': 32000}),
           Part('mh-chain', run_mh, strategy=strat_mh, examples={'quick': 400, 'thorough': 6400}, shards={'quick': 8, 'thorough': 16})],
    assumptions=['standardise=True of the glasso variant has no published-form reference here (judged by the relation whitening=W == pre-whitened summaries); the semi-parametric likelihood is outside the statement',
                 'the stub likelihood replaces the synthetic likelihood in the MH part: the chain logic is judged, the likelihood values are judged in the likelihood part',
                 'acceptance decisions with |u - ratio| < 1e-7 are borderline and skipped'],
    design_ref='DESIGN.md section 4, C20',
    technique='Hypothesis-generated summary matrices/bounds/chains; independently written published formulas; inverse and '
              'finite-difference checks of the transform; reference MH chain replaying the same random stream',
    level_text='Exploration: every likelihood variant is compared with an independent evaluation of its published formula (rtol 1e-9..1e-6); the '
               'transform with its exact inverse and analytic/numeric Jacobian; complete BSL chains with an independent Metropolis-Hastings '
               'implementation fed by the same random stream, including the count of simulations.',
    level_note='Trusts numpy/scipy/sklearn linear algebra and the formulas as written in this module (Price et al. 2018; Frazier & Drovandi 2021).')
