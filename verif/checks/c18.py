"""C18 - vectorize and external_operation behave as per-row application.

Oracle: an explicit Python loop over rows for vectorize (with identity checks on constants and
keyword arguments), and direct substitution/parsing plus the reference sub-seed for external
command operations.
"""

import numpy as np
from hypothesis import strategies as st

from ..core import CaseResult, Part, Violation, must_not_raise
from ..refmodels import ref_sub_seed
from ..runner import Check

P = 'C18'

CALLS = []


class Obj(object):
    """An opaque constant object."""

    def __init__(self, v):
        self.v = v


def _num(x):
    if isinstance(x, Obj):
        return float(x.v)
    if isinstance(x, dict):
        return float(x['v'])
    if isinstance(x, (list, tuple)):
        return float(sum(x))
    return float(np.sum(x))


def base_op(*args, **kw):
    """Test operation: records exactly what it was called with and returns a value computed from the inputs."""
    CALLS.append((args, dict(kw)))
    ret = kw.get('_ret', 'scalar')
    val = sum((i + 1) * _num(a) for i, a in enumerate(args)) + (_num(kw['k']) if 'k' in kw else 0.0)
    if ret == 'scalar':
        return val
    if ret == 'mixed':       # the Python type of the result differs between rows (an int for some rows, a float for others)
        return int(val) if int(val) % 2 == 0 else val + 0.25
    if ret == 'array':
        return np.array([val, 2 * val, -val])
    if ret == 'tuple':
        return (val, 'x')
    if ret == 'ragged':
        return list(range(int(abs(val)) % 3 + 1))
    raise ValueError(ret)


# ------------------------------------------------------------------ vectorize

def input_spec():
    return st.one_of(
        st.tuples(st.just('scalar'), st.integers(0, 99)),
        st.tuples(st.just('npscalar'), st.integers(0, 99)),
        st.tuples(st.just('array1'), st.integers(0, 10 ** 6)),
        st.tuples(st.just('array1'), st.integers(0, 10 ** 6)),
        st.tuples(st.just('array2'), st.integers(0, 10 ** 6)),
        st.tuples(st.just('obj'), st.integers(0, 99)),
        st.tuples(st.just('dict'), st.integers(0, 99)),
        st.tuples(st.just('list'), st.integers(0, 99)),
        st.tuples(st.just('const-array'), st.integers(0, 10 ** 6)),     # an array that the mask declares constant
        st.tuples(st.just('zero-d'), st.integers(0, 99)),
    )


def call_spec(arity):
    return st.fixed_dictionaries({
        'inputs': st.lists(input_spec(), min_size=arity, max_size=arity),
        'batch': st.integers(1, 5),
        'give_bs': st.sampled_from(['no', 'no', 'yes', 'wrong']),
        'kw': st.booleans(),
        'mismatch': st.integers(0, 19).map(lambda v: v == 0),
    })


def strat_vectorize(tier):
    return st.integers(1, 4).flatmap(lambda arity: st.fixed_dictionaries({
        'arity': st.just(arity),
        'calls': st.lists(call_spec(arity), min_size=1, max_size=3),
        'dtype': st.sampled_from(['none', 'float', 'int', 'false']),
        'ret': st.sampled_from(['scalar', 'scalar', 'mixed', 'array', 'tuple', 'ragged']),
        'explicit_mask': st.booleans(),
        'mask_type': st.sampled_from(['list', 'tuple']),
    }))


def _make_input(spec, batch, mismatch):
    kind, v = spec
    rs = np.random.RandomState(v)
    if kind == 'scalar':
        return float(v), True
    if kind == 'npscalar':
        return np.float64(v), True
    if kind == 'zero-d':
        return np.array(float(v)), True
    if kind == 'array1':
        n = batch + (1 if mismatch else 0)
        return rs.randint(0, 50, size=n).astype(float), False
    if kind == 'array2':
        return rs.randint(0, 50, size=(batch, 2)).astype(float), False
    if kind == 'obj':
        return Obj(v), True
    if kind == 'dict':
        return {'v': v}, True
    if kind == 'list':
        return [v, 1, 2], True
    if kind == 'const-array':
        return rs.randint(0, 50, size=7).astype(float), True
    raise ValueError(kind)


def run_vectorize(case):
    from elfi.model.tools import vectorize
    arity = case['arity']
    dtype = {'none': None, 'float': float, 'int': int, 'false': False}[case['dtype']]
    ret = case['ret']
    if ret in ('tuple', 'ragged'):
        dtype = False
    # explicit mask: positions that hold a 'const-array' in ANY call must be masked (otherwise they are batch inputs);
    # a masked position always gets a constant-kind input
    must_mask = sorted(set(i for c in case['calls'] for i, s in enumerate(c['inputs']) if s[0] == 'const-array'))
    mask = list(must_mask)
    if case['explicit_mask']:
        for i in range(arity):
            if all(c['inputs'][i][0] in ('scalar', 'obj', 'dict', 'list', 'const-array', 'npscalar', 'zero-d') for c in case['calls']) and i not in mask:
                mask.append(i)
    for c in case['calls']:
        for i in mask:
            if c['inputs'][i][0] in ('array1', 'array2'):
                c['inputs'][i] = ('const-array', c['inputs'][i][1])
    mask_arg = None if not mask else (tuple(mask) if case['mask_type'] == 'tuple' else list(mask))
    with must_not_raise(P, 'vectorize(op, constants=%r, dtype=%r)' % (mask_arg, dtype)):
        vop = vectorize(base_op, constants=mask_arg, dtype=dtype) if (mask_arg is not None or dtype is not None) else vectorize(base_op)
    labels = []
    nontrivial = None
    for ci, c in enumerate(case['calls']):
        batch = c['batch']
        made = [_make_input(s, batch, c['mismatch'] and j == 0) for j, s in enumerate(c['inputs'])]
        inputs = [m[0] for m in made]
        is_const = [m[1] or (j in mask) for j, m in enumerate(made)]
        lengths = [len(x) for x, k in zip(inputs, is_const) if not k]
        kwargs = {'_ret': ret}
        kobj = Obj(5)
        if c['kw']:
            kwargs['k'] = kobj
        bs_arg = None
        if c['give_bs'] == 'yes':
            bs_arg = lengths[0] if lengths else batch
        elif c['give_bs'] == 'wrong':
            bs_arg = (lengths[0] if lengths else batch) + 1
        if bs_arg is not None:
            kwargs['batch_size'] = bs_arg
        # expected length / error
        all_len = list(lengths) + ([bs_arg] if bs_arg is not None else [])
        expect_error = len(set(all_len)) > 1
        n = all_len[0] if all_len else 1
        ctx = 'call %d of %d on one vectorised op: inputs=%r mask=%r dtype=%s ret=%s batch_size=%r' % (
            ci + 1, len(case['calls']), c['inputs'], mask_arg, case['dtype'], ret, bs_arg)
        del CALLS[:]
        try:
            out = vop(*inputs, **kwargs)
        except ValueError as e:
            if expect_error:
                labels.append('length-mismatch-rejected')
                continue
            raise Violation('C18:vectorize-raises', 'ValueError(%s) for consistent inputs; %s' % (str(e)[:150], ctx))
        except Exception as e:
            raise Violation('C18:vectorize-raises', '%s(%s); %s' % (type(e).__name__, str(e)[:150], ctx))
        if expect_error:
            raise Violation('C18:vectorize-length-mismatch-accepted', 'inputs/batch_size of lengths %r were accepted; %s' % (all_len, ctx))
        # per-row reference
        if len(CALLS) != n:
            raise Violation('C18:vectorize-call-count', 'operation ran %d times for a batch of %d; %s' % (len(CALLS), n, ctx))
        exp_rows = []
        for r in range(n):
            args, kw = CALLS[r]
            if len(args) != arity:
                raise Violation('C18:vectorize-arity', 'operation got %d args; %s' % (len(args), ctx))
            for j in range(arity):
                if is_const[j]:
                    if args[j] is not inputs[j]:
                        raise Violation('C18:vectorize-constant-not-passed-through',
                                        'row %d: constant input %d was not passed through unchanged (got %r); %s' % (r, j, args[j], ctx))
                else:
                    if not np.array_equal(np.asarray(args[j]), np.asarray(inputs[j][r])):
                        raise Violation('C18:vectorize-wrong-row', 'row %d: input %d is %r, expected row %r; %s'
                                        % (r, j, np.asarray(args[j]).tolist(), np.asarray(inputs[j][r]).tolist(), ctx))
            if c['kw'] and kw.get('k') is not kobj:
                raise Violation('C18:vectorize-kwarg-not-passed-through', 'row %d: keyword argument not passed through; %s' % (r, ctx))
            if 'batch_size' in kw:
                raise Violation('C18:vectorize-batch_size-leaked', 'row %d: the per-row operation received batch_size; %s' % (r, ctx))
            exp_args = [inputs[j] if is_const[j] else inputs[j][r] for j in range(arity)]
            saved = list(CALLS)
            exp_rows.append(base_op(*exp_args, **{k: v for k, v in kwargs.items() if k != 'batch_size'}))
            CALLS[:] = saved
        if dtype is False:
            if not (isinstance(out, np.ndarray) and out.dtype == object and out.shape == (n,)):
                raise Violation('C18:vectorize-object-output', 'dtype=False must give a 1-d object array of length %d, got %r; %s'
                                % (n, (type(out).__name__, getattr(out, 'dtype', None), getattr(out, 'shape', None)), ctx))
            for r in range(n):
                same = (out[r] == exp_rows[r]) if not isinstance(exp_rows[r], np.ndarray) else np.array_equal(out[r], exp_rows[r])
                if type(out[r]) is not type(exp_rows[r]) or not same:
                    raise Violation('C18:vectorize-object-entry', 'entry %d is %r, expected %r unchanged; %s' % (r, out[r], exp_rows[r], ctx))
        else:
            exp = np.array(exp_rows, dtype=dtype)
            if not (isinstance(out, np.ndarray) and out.shape == exp.shape and out.dtype == exp.dtype and np.array_equal(out, exp)):
                raise Violation('C18:vectorize-output', 'output %r (dtype %s) differs from the per-row application %r (dtype %s); %s'
                                % (np.asarray(out).tolist(), getattr(out, 'dtype', None), exp.tolist(), exp.dtype, ctx))
        mixed = any(is_const) and not all(is_const)
        if mixed and n >= 2:
            nontrivial = True
            labels.append('mixed-constant-batched')
        if n == 1:
            labels.append('batch=1')
        if not lengths:
            labels.append('all-constant-inputs')
    if len(case['calls']) > 1:
        labels.append('call-history')
        kinds = [[('c' if s[0] not in ('array1', 'array2') else 'b') for s in c['inputs']] for c in case['calls']]
        if any(a != b for a, b in zip(kinds, kinds[1:])):
            labels.append('position-changes-kind-between-calls')
    labels.append('dtype=' + case['dtype'])
    return CaseResult(sorted(set(labels)), nontrivial)


# ------------------------------------------------------------------ external operations

def strat_external(tier):
    token = st.sampled_from(['{0}', '{1}', '{kwa}', '{seed}', '{batch_size}', '{index_in_batch}', '{batch_index}', '7', '{seed}', '{0}'])
    return st.fixed_dictionaries({
        'tokens': st.lists(token, min_size=1, max_size=5),
        'sep': st.sampled_from([' ', ',', ';']),
        'cmd': st.sampled_from(['echo', 'printf']),
        'dtype': st.sampled_from([None, 'int64', 'float64', 'int32', 'uint64']),
        'dtype_form': st.sampled_from(['str', 'str', 'np.dtype']),      # the documented spellings of a result type
        # positional values incl. 64-bit ids / timestamps that a float cannot hold exactly (only with a 64-bit integer result type)
        'a0': st.one_of(st.integers(0, 1000), st.sampled_from([2 ** 53 + 1, 2 ** 62 + 12345, 2 ** 63 - 1])),
        'a1': st.integers(0, 1000), 'kwa': st.integers(0, 1000),
        'state_seed': st.integers(0, 2 ** 32 - 1), 'index': st.integers(0, 6), 'bs': st.integers(1, 4),
        'batch_index': st.integers(0, 50),
        'mode': st.sampled_from(['direct', 'vectorized', 'model']),
    })


def run_external(case):
    import elfi
    from elfi.model.tools import external_operation, vectorize
    sep = case['sep']
    if case['mode'] != 'direct':
        # vectorize consumes batch_size: the per-row operation (and so the template) never sees it
        case = dict(case, tokens=[('7' if t == '{batch_size}' else t) for t in case['tokens']])
    body = sep.join(case['tokens'])
    command = ('echo "%s"' % body) if case['cmd'] == 'echo' else ("printf '%%s\\n' \"%s\"" % body)
    dtype = case['dtype']
    if case['a0'] > 1000 and dtype not in ('int64', 'uint64'):
        case = dict(case, a0=case['a0'] % 1000)          # big values only where the result type can hold them
    if case['mode'] == 'vectorized' and case['a0'] > 1000:
        case = dict(case, a0=case['a0'] - 8)             # room for the per-row offsets
    np_dtype = np.dtype(dtype) if dtype else np.dtype(float)
    with must_not_raise(P, 'external_operation(%r)' % command):
        op = external_operation(command, process_result=(np.dtype(dtype) if (dtype and case.get('dtype_form') == 'np.dtype') else dtype), sep=sep)
    bs = case['bs']
    ctx = 'command=%r dtype=%r (given as %s) mode=%s state_seed=%d bs=%d' % (command, dtype, case.get('dtype_form', 'str'), case['mode'], case['state_seed'], bs)

    def expected(a0, a1, seed, index, batch_index):
        sub = {'{0}': a0, '{1}': a1, '{kwa}': case['kwa'], '{seed}': seed, '{batch_size}': bs,
               '{index_in_batch}': index, '{batch_index}': batch_index, '7': 7}
        return np.array([sub[t] for t in case['tokens']], dtype=np_dtype)
    uses_index = '{index_in_batch}' in case['tokens']
    labels = ['mode=' + case['mode']]
    if '{seed}' in case['tokens']:
        labels.append('seed-in-template')
    if case['mode'] == 'direct':
        rs = np.random.RandomState(case['state_seed'])
        word = int(rs.get_state()[1][0])
        meta = {'batch_index': case['batch_index'], 'index_in_batch': case['index']}
        with must_not_raise(P, 'calling the external operation; ' + ctx):
            out = op(case['a0'], case['a1'], kwa=case['kwa'], random_state=rs, batch_size=bs, meta=meta)
            out2 = op(case['a0'], case['a1'], kwa=case['kwa'], random_state=np.random.RandomState(case['state_seed']), batch_size=bs, meta=dict(meta))
        exp = expected(case['a0'], case['a1'], ref_sub_seed(word, case['index']), case['index'], case['batch_index'])
        if not (isinstance(out, np.ndarray) and out.dtype == exp.dtype and np.array_equal(out, exp)):
            raise Violation('C18:external-output', 'operation returned %r (dtype %s), substitution/parsing gives %r (dtype %s); %s'
                            % (np.asarray(out).tolist(), getattr(out, 'dtype', None), exp.tolist(), exp.dtype, ctx))
        if not np.array_equal(out, out2):
            raise Violation('C18:external-nondeterministic', 'two calls with an equal generator differ: %r vs %r; %s' % (out.tolist(), out2.tolist(), ctx))
        return CaseResult(labels, None)
    if case['mode'] == 'vectorized':
        vop = vectorize(op)
        rs = np.random.RandomState(case['state_seed'])
        word = int(rs.get_state()[1][0])
        a0 = np.arange(bs, dtype=np.int64) + np.int64(case['a0'])
        meta = {'batch_index': case['batch_index']}
        with must_not_raise(P, 'calling the vectorised external operation; ' + ctx):
            out = vop(a0, case['a1'], kwa=case['kwa'], random_state=rs, batch_size=bs, meta=meta)
            out2 = vop(a0, case['a1'], kwa=case['kwa'], random_state=np.random.RandomState(case['state_seed']), batch_size=bs,
                       meta={'batch_index': case['batch_index']})
        exp = np.array([expected(a0[i], case['a1'], ref_sub_seed(word, i), i, case['batch_index']) for i in range(bs)])
        if not (np.shape(out) == exp.shape and np.array_equal(out, exp)):
            raise Violation('C18:external-vectorized-output', 'vectorised operation returned %r, per-row substitution with seed = sub_seed(generator word, row) gives %r; %s'
                            % (np.asarray(out).tolist(), exp.tolist(), ctx))
        if not np.array_equal(out, out2):
            raise Violation('C18:external-nondeterministic', 'two calls with an equal generator differ; %s' % ctx)
        if '{seed}' in case['tokens'] and bs >= 2:
            col = case['tokens'].index('{seed}')
            seeds = [int(v) for v in np.asarray(out)[:, col]]
            if len(set(seeds)) != bs:
                raise Violation('C18:external-seeds-not-distinct', 'rows of one batch received seeds %r; %s' % (seeds, ctx))
            return CaseResult(labels + ['distinct-seeds-checked'], True)
        return CaseResult(labels, True if bs >= 2 else None)
    # inside a model
    m = elfi.ElfiModel(name='c18model')
    t = elfi.Prior('randint', 0, 500, model=m, name='t')
    c1 = elfi.Constant(case['a1'], model=m, name='c1')
    kw = elfi.Constant(case['kwa'], model=m, name='kwnode')
    sim = elfi.Simulator(vectorize(op), t, c1, model=m, name='sim')
    m.add_edge('kwnode', 'sim', 'kwa')
    sim.uses_meta = True
    seed = case['state_seed']
    with must_not_raise(P, 'generate on a model with a vectorised external simulator; ' + ctx):
        res = m.generate(bs, ['t', 'sim'], seed=seed)
        res2 = m.generate(bs, ['t', 'sim'], seed=seed)
    out = np.asarray(res['sim'])
    if out.shape != (bs, len(case['tokens'])):
        raise Violation('C18:external-model-shape', 'simulator output shape %r, expected %r; %s' % (out.shape, (bs, len(case['tokens'])), ctx))
    if not np.array_equal(out, np.asarray(res2['sim'])):
        raise Violation('C18:external-nondeterministic', 'two seeded generate calls differ; %s' % ctx)
    # the batch generator: RandomState(sub_seed(seed, 0)); its state word when the simulator runs is unknown to the oracle
    # (the prior drew first), so the seeds are checked for distinctness and the other fields exactly
    for i in range(bs):
        for j, tok in enumerate(case['tokens']):
            if tok == '{seed}':
                continue
            exp = expected(res['t'][i], case['a1'], 0, i, 0)[j]
            if out[i, j] != exp:
                raise Violation('C18:external-model-output', 'row %d field %s is %r, expected %r; %s' % (i, tok, out[i, j], exp, ctx))
    if '{seed}' in case['tokens'] and bs >= 2:
        col = case['tokens'].index('{seed}')
        seeds = [int(v) for v in out[:, col]]
        if len(set(seeds)) != bs:
            raise Violation('C18:external-seeds-not-distinct', 'rows of one batch received seeds %r; %s' % (seeds, ctx))
        labels.append('distinct-seeds-checked')
    return CaseResult(labels, True if bs >= 2 else None)


CHECK = Check(
    P, 'exploration',
    rule=('vectorize: arity 1-4, every input a scalar / numpy scalar / 0-d array / batch array (batch,) or (batch,2) / opaque object / dict / '
          'list / array declared constant by the mask, explicit or auto-detected constant mask (list or tuple), keyword pass-through, '
          'batch_size absent / right / wrong, dtype None/float/int/False, operations returning scalars, values whose Python type differs between rows (int / float), arrays, tuples or ragged lists, '
          'and 1-3 successive calls on the SAME vectorised object; oracle = explicit per-row loop with identity checks. external: '
          'echo/printf templates over positional, keyword, seed, batch_size, index_in_batch and meta fields with separators and result '
          'dtypes given as strings or np.dtype instances, 64-bit integer values; direct, vectorised and inside a model. Non-trivial: mixed constant/batched inputs with batch >= 2; external with '
          'batch >= 2.'),
    parts=[Part('vectorize', run_vectorize, strategy=strat_vectorize, examples={'quick': 1500, 'thorough': 64000}),
           Part('external', run_external, strategy=strat_external, examples={'quick': 320, 'thorough': 4800})],
    assumptions=['a POSIX shell with echo/printf is available', 'lists are constants for vectorize (only numpy arrays with ndim>0 are batched)'],
    design_ref='DESIGN.md section 4, C18',
    technique='Hypothesis-generated input layouts/templates and call histories against an explicit per-row loop and direct '
              'substitution; reference sub-seed for the external seed',
    level_text='Exploration: each generated layout is executed through vectorize and compared, call by call, with the per-row '
               'application recorded by the test operation (arguments by identity for constants); external operations are run '
               'through a real shell and compared with direct substitution and the reference sub-seed.',
    level_note='Trusts the recording test operation and verif/refmodels.ref_sub_seed.')
