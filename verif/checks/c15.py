"""C15 - batch sub-seeds are distinct and depend only on (seed, index).

Oracle: sub_seed(seed, i, high) is the (i+1)-th distinct value, in first-occurrence order, of the
stream RandomState(seed).randint(high, dtype=uint32) drawn one value at a time (refmodels).
"""

import itertools

import numpy as np
from hypothesis import strategies as st

from ..core import CaseResult, Part, Violation, must_not_raise, time_limit
from ..refmodels import sub_seed_table
from ..runner import Check

P = 'C15'


def _call(seed, idx, high, cache):
    from elfi.utils import get_sub_seed
    if cache is None:
        return get_sub_seed(seed, idx, high)
    return get_sub_seed(seed, idx, high, cache=cache)


def run_sequence(case):
    """One index sequence sharing one cache: cached == uncached == reference at every step."""
    seed, high, seq = case['seed'], case['high'], case['seq']
    mx = max([i for i in seq if i < high], default=-1)
    table, ndups = sub_seed_table(seed, high, mx + 1) if mx >= 0 else ((), 0)
    cache = {} if case.get('empty_cache', True) else {'random_state': None, 'seen': set()}
    labels = []
    prev = None
    dec = rep = False
    for step, i in enumerate(seq):
        if i >= high:
            for c in (cache, None):
                try:
                    with time_limit(5, 'C15:unservable-index-hangs', 'get_sub_seed(%d, %d, high=%d)' % (seed, i, high)):
                        got = _call(seed, i, high, c)
                except Violation:
                    raise
                except Exception:  # any exception is a rejection
                    continue
                raise Violation('C15:out-of-range-aliased',
                                'index %d >= high %d returned %r instead of being rejected (seed %d, step %d of %r)'
                                % (i, high, got, seed, step, seq))
            labels.append('rejected-index')
            continue
        with must_not_raise(P, 'get_sub_seed(%d, %d, high=%d, cache) in sequence %r' % (seed, i, high, seq)):
            c = _call(seed, i, high, cache)
            u = _call(seed, i, high, None)
        ref = table[i]
        if int(c) != ref or int(u) != ref:
            which = 'cached' if int(c) != ref else 'uncached'
            raise Violation('C15:%s-differs-from-reference' % which,
                            'seed=%d high=%d sequence=%r step=%d index=%d: cached=%r uncached=%r reference=%r'
                            % (seed, high, seq, step, i, int(c), int(u), ref))
        if not (0 <= int(c) < high):
            raise Violation('C15:out-of-interval', 'sub seed %r not in [0,%d)' % (c, high))
        if prev is not None:
            if i < prev:
                dec = True
            if i == prev:
                rep = True
        prev = i
    if dec:
        labels.append('decreasing')
    if rep:
        labels.append('repeat')
    if ndups:
        labels.append('forced-duplicate-draw')
    if any(seq[j] > seq[j - 1] + 1 for j in range(1, len(seq))):
        labels.append('jump')
    nontrivial = True if ((dec or rep or len(set(seq)) < len(seq)) and ndups) else None
    return CaseResult(labels, nontrivial)


def enum_sequences(tier, shard, nshards):
    seeds = range(0, 24) if tier == 'quick' else range(0, 240)
    maxlen = 4
    k = 0
    for high in range(1, 7):
        for seed in seeds:
            for first in range(0, high + 1):
                k += 1
                if k % nshards != shard:
                    continue
                for L in range(0, maxlen):
                    for seq in itertools.product(range(0, high + 1), repeat=L):
                        yield {'seed': seed, 'high': high, 'seq': [first] + list(seq)}


def run_distinct(case):
    """All indices 0..m-1 through one cache: distinct, in range, equal to the reference."""
    seed, high, m, order = case['seed'], case['high'], case['m'], case['order']
    m = min(m, high)
    table, ndups = sub_seed_table(seed, high, m)
    idxs = list(range(m))
    if order == 'reverse':
        idxs.reverse()
    elif order == 'evens-then-odds':
        idxs = idxs[::2] + idxs[1::2]
    cache = {}
    got = {}
    for i in idxs:
        with must_not_raise(P, 'get_sub_seed(%d,%d,high=%d)' % (seed, i, high)):
            got[i] = int(_call(seed, i, high, cache if case['use_cache'] else None))
        if got[i] != table[i]:
            raise Violation('C15:differs-from-reference',
                            'seed=%d high=%d order=%s index=%d got=%d reference=%d' % (seed, high, order, i, got[i], table[i]))
        if not (0 <= got[i] < high):
            raise Violation('C15:out-of-interval', 'sub seed %r not in [0,%d)' % (got[i], high))
    if len(set(got.values())) != len(got):
        raise Violation('C15:duplicate-sub-seed', 'seed=%d high=%d: two indices share a sub seed: %r' % (seed, high, got))
    # the first index that cannot be served
    for c in ({}, None):
        try:
            with time_limit(5, 'C15:unservable-index-hangs', 'get_sub_seed(%d, %d, high=%d)' % (seed, high, high)):
                r = _call(seed, high, high, c)
        except Violation:
            raise
        except Exception:
            pass
        else:
            raise Violation('C15:out-of-range-aliased', 'index == high == %d returned %r' % (high, r))
    labels = ['order=' + order, 'cache' if case['use_cache'] else 'nocache']
    if ndups:
        labels.append('forced-duplicate-draw')
    if m == high:
        labels.append('whole-range-used')
    return CaseResult(labels, True if (ndups and m >= 2) else None)


def strat_distinct(tier):
    highs = st.one_of(st.integers(1, 64), st.sampled_from([100, 257, 1000, 2 ** 16, 2 ** 31, 2 ** 32 - 1, 2 ** 32]))
    return st.fixed_dictionaries({
        'seed': st.one_of(st.integers(0, 2 ** 32 - 1), st.integers(0, 50)),
        'high': highs,
        'm': st.integers(1, 300 if tier == 'thorough' else 120),
        'order': st.sampled_from(['forward', 'reverse', 'evens-then-odds']),
        'use_cache': st.booleans(),
    })


def strat_random_seq(tier):
    def seqs(high):
        top = min(high, 300)
        far = min(high, 3000)        # long jumps: more than 1024 values drawn by one request
        return st.lists(st.one_of(st.integers(0, min(top, 12)), st.integers(0, top), st.integers(0, top), st.integers(min(far, 1000), far)), min_size=1, max_size=12)
    highs = st.one_of(st.integers(7, 64), st.sampled_from([2 ** 31, 2 ** 32, 1000]))
    return highs.flatmap(lambda h: st.fixed_dictionaries({
        'seed': st.integers(0, 2 ** 32 - 1), 'high': st.just(h), 'seq': seqs(h)}))


# Master seeds whose raw one-at-a-time stream (default high = 2**31) repeats a value within its first 2500 draws:
# (seed, draw position of the first occurrence, draw position of the repeat).  Found by scanning seeds 0..40000 with
#   v = RandomState(seed).randint(2**31, size=2500, dtype='uint32'); positions of the first value that occurs twice.
# About one master seed in 700 has such an early natural collision; a uniform draw of seeds practically never hits one, and
# only for them do "the i-th raw draw" and "the i-th DISTINCT value" differ under the default range.
NATURAL_COLLISIONS = [(731, 489, 1047), (1096, 963, 1305), (2034, 359, 1336), (2301, 678, 1413), (3130, 148, 2276), (3575, 455, 1406),
                      (4447, 55, 804), (4594, 607, 1368), (5036, 70, 1328), (5688, 228, 674), (6127, 479, 698), (7582, 332, 1008),
                      (13436, 849, 1195), (20036, 152, 205), (22990, 172, 551), (27699, 1006, 1076)]


def strat_natural(tier):
    return st.fixed_dictionaries({
        'which': st.integers(0, len(NATURAL_COLLISIONS) - 1),
        'offsets': st.lists(st.integers(-3, 40), min_size=1, max_size=5),
        'use_cache': st.booleans(), 'order': st.sampled_from(['forward', 'reverse']),
    })


def run_natural(case):
    """Indices around a natural collision of the default-range stream: equal to the reference, distinct, cache-independent."""
    seed, p1, p2 = NATURAL_COLLISIONS[case['which']]
    high = 2 ** 31
    idxs = sorted(set([p1] + [max(0, p2 + o) for o in case['offsets']]))
    table, ndups = sub_seed_table(seed, high, max(idxs) + 1)
    if case['order'] == 'reverse':
        idxs.reverse()
    cache = {} if case['use_cache'] else None
    got = {}
    for i in idxs:
        with must_not_raise(P, 'get_sub_seed(%d,%d)' % (seed, i)):
            got[i] = int(_call(seed, i, high, cache))
        if got[i] != table[i]:
            raise Violation('C15:differs-from-reference', 'seed=%d (its raw stream repeats draw %d at draw %d) default range, index=%d %s: got=%d reference=%d'
                            % (seed, p1, p2, i, 'cached' if case['use_cache'] else 'uncached', got[i], table[i]))
    if len(set(got.values())) != len(got):
        raise Violation('C15:duplicate-sub-seed', 'seed=%d: two indices share a sub seed: %r' % (seed, got))
    labels = ['cache' if case['use_cache'] else 'nocache']
    if ndups:
        labels.append('natural-duplicate-draw')
    return CaseResult(labels, True if (ndups and max(idxs) >= p2) else None)


def strat_callsites(tier):
    seeds = st.one_of(st.sampled_from([0, 1, 5, 123456]), st.integers(0, 2 ** 32 - 1))
    idx = st.one_of(st.integers(0, 6), st.integers(0, 400), st.integers(0, 400), st.integers(1000, 3000))
    return st.fixed_dictionaries({
        'seeds': st.lists(seeds, min_size=1, max_size=3),
        'calls': st.lists(st.tuples(st.integers(0, 2), idx), min_size=1, max_size=14),
        'site': st.sampled_from(['prepare_seed', 'loader']),
    })


def run_callsites(case):
    """The two call sites that derive seeds through get_sub_seed, driven with interleaved histories.

    prepare_seed: the seed handed to an external operation for run `index_in_batch` of a batch whose generator was
    seeded with s is sub_seed(first state word, index) - whatever was requested before (other batches, other runs).
    loader: the batch generator RandomStateLoader puts into a compiled net for (context seed, batch index) is
    RandomState(sub_seed(seed, index)), on a context that has served any other indices before.
    """
    import networkx as nx
    seeds = case['seeds']
    calls = [(seeds[k % len(seeds)], i) for k, i in case['calls']]
    labels = ['site=' + case['site']]
    if case['site'] == 'prepare_seed':
        from elfi.model.tools import prepare_seed
        for step, (s, i) in enumerate(calls):
            rs = np.random.RandomState(s)
            word = int(rs.get_state()[1][0])
            with must_not_raise(P, 'prepare_seed(random_state=RandomState(%d), index_in_batch=%d)' % (s, i)):
                _, kw = prepare_seed(random_state=rs, index_in_batch=i)
            ref = sub_seed_table(word, 2 ** 31, i + 1)[0][i]
            if int(kw['seed']) != ref:
                raise Violation('C15:prepare_seed-history-dependent',
                                'call %d of %r: prepare_seed gave seed %d for (generator seed %d, run %d); (seed, index) determines %d'
                                % (step, calls, int(kw['seed']), s, i, ref))
    else:
        from elfi.loader import RandomStateLoader
        from elfi.model.elfi_model import ComputationContext
        ctxs = {}
        for step, (s, i) in enumerate(calls):
            ctx = ctxs.setdefault(s, ComputationContext(batch_size=2, seed=s))
            for c in (ctx, ComputationContext(batch_size=2, seed=s)):
                net = nx.DiGraph()
                net.add_node('_random_state')
                with must_not_raise(P, 'RandomStateLoader.load(context seed %d, batch %d)' % (s, i)):
                    RandomStateLoader.load(c, net, i)
                got = net.nodes['_random_state']['output'].get_state()[1]
                ref = np.random.RandomState(sub_seed_table(s, 2 ** 31, i + 1)[0][i]).get_state()[1]
                if not np.array_equal(got, ref):
                    raise Violation('C15:loader-history-dependent',
                                    'call %d of %r: batch generator for (seed %d, batch %d) on a %s context is not RandomState(sub_seed)'
                                    % (step, calls, s, i, 'used' if c is ctx else 'fresh'))
    idxs = [i for _, i in calls]
    interleaved = len(set(s for s, _ in calls)) > 1
    nonmono = any(b <= a for a, b in zip(idxs, idxs[1:]))
    if interleaved:
        labels.append('interleaved-seeds')
    if nonmono:
        labels.append('non-increasing')
    return CaseResult(labels, True if (interleaved and nonmono and len(calls) >= 3) else None)


def coverage_extra(tier, results):
    return {'exhaustive': True,
            'exhaustive_scope': 'part enum-sequences enumerates ALL index sequences of length 1..4 over [0, high] '
                                '(index == high must be rejected) for every high in 1..6 and every seed in 0..%d; '
                                'the other parts are sampled' % (23 if tier == 'quick' else 239)}


CHECK = Check(
    P, 'exploration',
    rule=('enum-sequences: every index sequence of length<=4 over [0,high], high 1..6, seeds 0..23 (quick) / 0..239 '
          '(thorough), one shared cache per sequence, compared step by step with the uncached call and with the '
          'reference (i+1)-th distinct value of the one-at-a-time randint stream; random-sequences / distinct: '
          'Hypothesis-generated seeds over uint32, high in {7..64, 1000, 2^16, 2^31, 2^32}, sequences up to 12 indices '
          'up to 300 plus long jumps (indices 1000-3000). Non-trivial = the sequence repeats or decreases an index AND the underlying stream contained at '
          'least one duplicate draw before the largest index was served (distinct cases counted by hash). call-sites: '
          'histories of (generator seed, index) requests through prepare_seed (external operations) and through '
          'RandomStateLoader on used vs fresh contexts; non-trivial = >=3 calls interleaving >=2 seeds with a '
          'non-increasing index. natural-collisions: 16 master seeds whose default-range stream repeats a value within 2500 draws, indices around the repeat, cached or not.'),
    parts=[
        Part('enum-sequences', run_sequence, enumerate_cases=enum_sequences, shards={'quick': 16, 'thorough': 16}),
        Part('random-sequences', run_sequence, strategy=strat_random_seq, examples={'quick': 1200, 'thorough': 40000}),
        Part('distinct', run_distinct, strategy=strat_distinct, examples={'quick': 600, 'thorough': 16000}),
        Part('call-sites', run_callsites, strategy=strat_callsites, examples={'quick': 600, 'thorough': 16000}),
        Part('natural-collisions', run_natural, strategy=strat_natural, examples={'quick': 120, 'thorough': 2400}),
    ],
    assumptions=['legacy numpy RandomState.randint(high, dtype=uint32) yields the same stream whether drawn one at a '
                 'time or in blocks (asserted by the reference comparison itself: elfi draws in blocks, the reference '
                 'one at a time)',
                 'one cache dict is only ever shared for one (seed, high) pair, as in elfi'],
    design_ref='DESIGN.md section 4, C15',
    technique='exhaustive enumeration of small index-sequence spaces + Hypothesis-generated sequences, against an '
              'independent one-draw-at-a-time reference stream',
    level_text='Exploration: for high<=6 every index sequence of length<=4 sharing one cache is enumerated for a range '
               'of master seeds (collisions in the draw stream are forced there), and larger ranges are sampled by '
               'Hypothesis. Every call is compared with the uncached call and an independent definition of the '
               'sub-seed; distinctness, range and rejection of unservable indices are asserted. Not a proof for all '
               'seeds/high.',
    level_note='Trusts numpy RandomState stream stability and the reference in verif/refmodels.py; a call that does '
               'not return within 5 s (normal cost ~50 us) is treated as a non-rejected unservable index.')
CHECK.coverage_extra = coverage_extra
