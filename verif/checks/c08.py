"""C08 - the joint model prior equals the product of the conditional prior densities.

Oracle: the product of scipy.stats densities written directly from the model description (for an
ancestor-closed parameter subset the marginal IS that product), central differences of the
reference log-density for the gradient.
"""

import warnings

import numpy as np
import scipy.stats as ss
from hypothesis import strategies as st

from ..core import CaseResult, Part, Violation, must_not_raise
from ..runner import Check

P = 'C08'
DISTS = ['uniform', 'norm', 'expon', 'gamma', 'beta', 'truncnorm', 'custom', 'custom-unif']
NAMES = ['a', 'b', 'c', 'd', 'e', 'f', 'g', 'h', 'T', 'mu', 'Z9']


class CustomNorm(object):
    """A user-defined scipy-like distribution (classmethod style) used through elfi.Distribution's protocol."""

    name = 'customnorm'

    @classmethod
    def rvs(cls, loc, scale, size=1, random_state=None):
        return ss.norm.rvs(loc, scale, size=size, random_state=random_state)

    @classmethod
    def pdf(cls, x, loc, scale):
        return ss.norm.pdf(x, loc, scale)

    @classmethod
    def logpdf(cls, x, loc, scale):
        return ss.norm.logpdf(x, loc, scale)


def _custom_unif():
    """A user-defined prior in the style of elfi's MA2 example: an elfi.Distribution subclass that implements only rvs and pdf
    (the log density is the inherited default) and has a bounded support."""
    global _CU
    if _CU is None:
        import elfi

        class CustomUnif(elfi.Distribution):
            def rvs(loc, scale, size=1, random_state=None):
                return ss.uniform.rvs(loc, scale, size=size, random_state=random_state)

            def pdf(x, loc, scale):
                return ss.uniform.pdf(x, loc, scale)
        _CU = CustomUnif
    return _CU


_CU = None


@st.composite
def model_desc(draw):
    k = draw(st.integers(1, 4))
    names = draw(st.permutations(NAMES))[:k]
    nodes = []
    for nm in names:
        dist = draw(st.sampled_from(DISTS))
        used = set()

        def loc():
            c = [n['name'] for n in nodes if n['name'] not in used]
            if c and draw(st.integers(0, 1)):
                n = draw(st.sampled_from(c))
                used.add(n)
                return ['p', n]
            return ['c', draw(st.integers(-8, 8)) / 4.0]

        def scale():
            c = [n['name'] for n in nodes if n['positive'] and n['name'] not in used]
            if c and draw(st.integers(0, 2)) == 0:
                n = draw(st.sampled_from(c))
                used.add(n)
                return ['p', n]
            return ['c', draw(st.integers(2, 12)) / 4.0]
        shape = lambda: ['c', draw(st.integers(2, 16)) / 4.0]
        if dist in ('uniform', 'norm', 'expon', 'custom', 'custom-unif'):
            args = [loc(), scale()]
        elif dist == 'gamma':
            args = [shape(), loc(), scale()]
        elif dist == 'beta':
            args = [shape(), shape(), loc(), scale()]
        else:
            args = [['c', -1.0], ['c', 2.0], loc(), scale()]
        # a node is usable as a scale argument when its support is positive
        locarg = args[-2]
        positive = dist in ('expon', 'gamma') and locarg[0] == 'c' and locarg[1] > 0
        nodes.append({'name': nm, 'dist': dist, 'args': args, 'positive': bool(positive)})
    return nodes


def strat(tier):
    return st.fixed_dictionaries({
        'nodes': model_desc(),
        'subset': st.sampled_from(['all-default', 'permutation', 'ancestor-closed-subset']),
        'perm': st.lists(st.integers(0, 10 ** 6), min_size=4, max_size=4),
        'seed': st.integers(0, 2 ** 31 - 1), 'n': st.integers(1, 8),
    })


def build(nodes):
    import elfi
    m = elfi.ElfiModel(name='c08model')
    for nd in nodes:
        args = [m[a[1]] if a[0] == 'p' else a[1] for a in nd['args']]
        dist = CustomNorm if nd['dist'] == 'custom' else (_custom_unif() if nd['dist'] == 'custom-unif' else nd['dist'])
        elfi.Prior(dist, *args, model=m, name=nd['name'])
    return m


def _sdist(nd):
    return ss.norm if nd['dist'] == 'custom' else (ss.uniform if nd['dist'] == 'custom-unif' else getattr(ss, nd['dist']))


def ref_pdf(nodes, names, X, log=False):
    col = {n: X[:, i] for i, n in enumerate(names)}
    tot = np.zeros(len(X)) if log else np.ones(len(X))
    with np.errstate(all='ignore'), warnings.catch_warnings():
        warnings.simplefilter('ignore')
        for nd in nodes:
            if nd['name'] not in names:
                continue
            args = [col[a[1]] if a[0] == 'p' else a[1] for a in nd['args']]
            d = _sdist(nd)
            v = d.logpdf(col[nd['name']], *args) if log else d.pdf(col[nd['name']], *args)
            tot = tot + v if log else tot * v
    return tot


def support(nd, row, names):
    """(lo, hi) of the node's conditional support at this row."""
    col = {n: row[i] for i, n in enumerate(names)}
    args = [col[a[1]] if a[0] == 'p' else a[1] for a in nd['args']]
    d = nd['dist']
    loc, scale = args[-2], args[-1]
    if d in ('norm', 'custom'):
        return -np.inf, np.inf
    if d in ('expon', 'gamma'):
        return loc, np.inf
    if d in ('uniform', 'beta', 'custom-unif'):
        return loc, loc + scale
    return loc + args[0] * scale, loc + args[1] * scale


def run_case(case):
    from elfi.model.extensions import ModelPrior
    nodes = case['nodes']
    allnames = sorted(nd['name'] for nd in nodes)
    by = {nd['name']: nd for nd in nodes}
    kind = case['subset']
    if kind == 'all-default':
        names, arg = list(allnames), None
    elif kind == 'permutation':
        names = sorted(allnames, key=lambda n: case['perm'][allnames.index(n) % 4] * 13 + allnames.index(n))
        arg = list(names)
    else:
        # an ancestor-closed strict subset: take a prefix of the creation order closed under parents
        keep = []
        cnt = max(1, len(nodes) - 1 - case['perm'][0] % 2)
        for nd in nodes[:cnt]:
            keep.append(nd['name'])
        names = sorted(keep, key=lambda n: case['perm'][keep.index(n) % 4] * 7 + keep.index(n))
        arg = list(names)
    dim = len(names)
    ctx = 'parameter_names=%r model=%r' % (arg, nodes)
    warnings.simplefilter('ignore')
    with must_not_raise(P, 'ModelPrior; ' + ctx):
        m = build(nodes)
        prior = ModelPrior(m, parameter_names=arg)
    n = case['n']
    with must_not_raise(P, 'rvs; ' + ctx):
        with np.errstate(all='ignore'):
            R = prior.rvs(n, random_state=np.random.RandomState(case['seed']))
            one = prior.rvs(random_state=np.random.RandomState(case['seed']))
    exp_shape = (n, dim) if dim > 1 else (n,)
    if np.shape(R) != exp_shape:
        raise Violation('C08:rvs-shape', 'rvs(%d) has shape %r, expected %r; %s' % (n, np.shape(R), exp_shape, ctx))
    if np.shape(one) != ((dim,) if dim > 1 else ()):
        raise Violation('C08:rvs-shape', 'rvs() has shape %r; %s' % (np.shape(one), ctx))
    X = np.reshape(R, (n, dim))
    with np.errstate(all='ignore'):
        if not float(np.reshape(prior.pdf(one), -1)[0]) > 0:
            raise Violation('C08:draw-with-zero-density', 'single draw %r has non-positive density; %s' % (np.reshape(one, -1).tolist(), ctx))
    with np.errstate(all='ignore'):
        with must_not_raise(P, 'pdf of draws; ' + ctx):
            pd = np.reshape(prior.pdf(R), -1)
    if not np.all(pd > 0):
        raise Violation('C08:draw-with-zero-density', 'draws %r have density %r; %s' % (X.tolist(), pd.tolist(), ctx))
    # evaluation points: draws, boundary points, outside points
    rs = np.random.RandomState(case['seed'] + 1)
    pts = [X]
    B = X.copy()
    O = X.copy()
    nb = 0
    for r in range(n):
        j = rs.randint(dim)
        lo, hi = support(by[names[j]], X[r], names) if set(a[1] for a in by[names[j]]['args'] if a[0] == 'p') <= set(names) else (-np.inf, np.inf)
        side = rs.randint(2)
        edge = (lo, hi)[side]
        if np.isfinite(edge):
            B[r, j] = edge
            O[r, j] = edge + (1 if side else -1) * rs.uniform(0.01, 2.0)
            nb += 1
        else:
            O[r, j] = X[r, j] + rs.randn() * 5
    pts += [B, O]
    # far tails: every coordinate with an unbounded side is moved 20-30 scale units out, all at once - each conditional density is
    # positive and each log density finite, but their PRODUCT underflows
    T = X.copy()
    ntail = 0
    for r in range(n):
        for j in range(dim):
            nd = by[names[j]]
            if not set(a[1] for a in nd['args'] if a[0] == 'p') <= set(names):
                continue
            col = {nm: T[r, i] for i, nm in enumerate(names)}
            args = [col[a[1]] if a[0] == 'p' else a[1] for a in nd['args']]
            loc, scale = args[-2], args[-1]
            k = 20.0 + 8.0 * ((r + j) % 2)
            if nd['dist'] in ('norm', 'custom') and scale > 0:
                T[r, j] = loc + (k if (r + j) % 3 else -k) * scale
                ntail += 1
            elif nd['dist'] == 'expon' and scale > 0:
                T[r, j] = loc + 10 * k * scale
                ntail += 1
    if ntail:
        pts.append(T)
    labels = ['subset=' + kind, 'dim=%d' % dim]
    if ntail:
        labels.append('far-tail-points')
    for pi, A in enumerate(pts):
        with np.errstate(all='ignore'):
            with must_not_raise(P, 'pdf/logpdf; ' + ctx):
                a = np.asarray(prior.pdf(A if dim > 1 else A[:, 0]))
                la = np.asarray(prior.logpdf(A if dim > 1 else A[:, 0]))
        r_ = ref_pdf(nodes, names, A)
        lr = ref_pdf(nodes, names, A, log=True)
        what = ['draws', 'boundary points', 'outside points', 'far-tail points'][pi]
        if a.shape != (n,) or la.shape != (n,):
            raise Violation('C08:pdf-shape', 'pdf of %d points has shape %r (logpdf %r); %s' % (n, a.shape, la.shape, ctx))
        if not np.allclose(a, r_, rtol=1e-10, atol=0, equal_nan=True):
            raise Violation('C08:pdf-value', '%s %r: pdf %r, product of conditional densities %r; %s' % (what, A.tolist(), a.tolist(), r_.tolist(), ctx))
        fin = np.isfinite(lr)
        if not (np.array_equal(np.isneginf(la), np.isneginf(lr)) and np.allclose(la[fin], lr[fin], rtol=1e-10, atol=1e-12)):
            raise Violation('C08:logpdf-value', '%s %r: logpdf %r, sum of conditional log densities %r; %s' % (what, A.tolist(), la.tolist(), lr.tolist(), ctx))
        # (a density can underflow to 0 in floating point where its logarithm is still finite: the cross check of the two zero
        #  patterns is made where the reference log density is above the underflow range)
        chk = ~(np.isfinite(lr) & (lr < -700))
        if not np.array_equal((a == 0)[chk], np.isneginf(la)[chk]):
            raise Violation('C08:zero-iff-neginf', 'pdf zero pattern %r vs logpdf -inf pattern %r; %s' % ((a == 0).tolist(), np.isneginf(la).tolist(), ctx))
        # single points in every accepted shape
        x0 = A[0]
        with np.errstate(all='ignore'):
            v1 = prior.pdf(x0 if dim > 1 else x0[0])
            v2 = prior.pdf(x0[None, :])
        if np.shape(v1) != () or np.shape(v2) != (1,):
            raise Violation('C08:single-point-shape', 'pdf of one point: shapes %r (flat input) and %r (2-d input); %s' % (np.shape(v1), np.shape(v2), ctx))
        if not (np.allclose(v1, a[0], rtol=1e-12, equal_nan=True) and np.allclose(v2[0], a[0], rtol=1e-12, equal_nan=True)):
            raise Violation('C08:single-point-value', 'pdf of one point %r vs batched %r; %s' % ((v1, v2), a[0], ctx))
    # gradient of the log density at interior draws
    ng = 0
    # interior draws, plus the same draws with one coordinate set to exactly 0.0 / -0.0 (where zero is interior)
    gpoints = [X[r] for r in range(min(n, 3))]
    for r in range(min(n, 2)):
        z = X[r].copy()
        z[(case['seed'] + r) % dim] = 0.0 if r == 0 else -0.0
        gpoints.append(z)
    for x in gpoints:
        interior = True
        for j in range(dim):
            nd = by[names[j]]
            if set(a[1] for a in nd['args'] if a[0] == 'p') <= set(names):
                lo, hi = support(nd, x, names)
                if x[j] - lo < 1e-3 or hi - x[j] < 1e-3:
                    interior = False
        # children supports may depend on x as well: require a finite reference in a neighbourhood
        h = 1e-5
        g_ref = np.zeros(dim)
        for j in range(dim):
            e = np.zeros(dim)
            e[j] = h
            fp = ref_pdf(nodes, names, (x + e)[None, :], log=True)[0]
            fm = ref_pdf(nodes, names, (x - e)[None, :], log=True)[0]
            e2 = e * 100
            if not (np.isfinite(fp) and np.isfinite(fm) and np.isfinite(ref_pdf(nodes, names, (x + e2)[None, :], log=True)[0])
                    and np.isfinite(ref_pdf(nodes, names, (x - e2)[None, :], log=True)[0])):
                interior = False
            g_ref[j] = (fp - fm) / (2 * h)
        if not interior:
            continue
        with np.errstate(all='ignore'):
            with must_not_raise(P, 'gradient_logpdf; ' + ctx):
                g = np.asarray(prior.gradient_logpdf(x if dim > 1 else x[0]))
        if np.shape(g) != (dim,):       # the gradient of one point is a vector of length dim (also for dim = 1)
            raise Violation('C08:gradient-shape', 'gradient_logpdf at one point has shape %r; %s' % (np.shape(g), ctx))
        g = np.reshape(g, -1)
        if not np.allclose(g, g_ref, rtol=1e-4, atol=1e-5 * (1 + np.abs(g_ref).max())):
            raise Violation('C08:gradient-value', 'gradient_logpdf(%r) = %r, derivative of the log density is %r; %s' % (x.tolist(), g.tolist(), g_ref.tolist(), ctx))
        ng += 1
        if np.any(x == 0):
            labels.append('gradient-at-a-zero-coordinate')
    # gradient is zero where the log density is -inf
    with np.errstate(all='ignore'):
        lo_ = ref_pdf(nodes, names, O, log=True)
        for r in range(n):
            if np.isneginf(lo_[r]):
                g = np.reshape(prior.gradient_logpdf(O[r] if dim > 1 else O[r, 0]), -1)
                if np.any(g != 0):
                    raise Violation('C08:gradient-outside-support', 'gradient_logpdf at %r (log density -inf) is %r, expected 0; %s' % (O[r].tolist(), g.tolist(), ctx))
                labels.append('gradient-outside-checked')
                break
    # a batch of points (interior, boundary and outside rows mixed) gives the same gradients as the rows one at a time
    mixed = np.vstack([X[:2], O[:2], B[:1]])
    with np.errstate(all='ignore'):
        with must_not_raise(P, 'batched gradient_logpdf; ' + ctx):
            gb = np.asarray(prior.gradient_logpdf(mixed if dim > 1 else mixed[:, 0]))
            rows = [np.reshape(prior.gradient_logpdf(r_ if dim > 1 else r_[0]), -1) for r_ in mixed]
    gb2 = np.reshape(gb, (len(mixed), dim)) if gb.size == len(mixed) * dim else None
    if gb2 is None:
        raise Violation('C08:gradient-batch-shape', 'gradient_logpdf of %d points in %d dimensions has shape %r; %s' % (len(mixed), dim, gb.shape, ctx))
    for r in range(len(mixed)):
        if not np.allclose(gb2[r], rows[r], rtol=1e-9, atol=1e-12, equal_nan=True):
            raise Violation('C08:gradient-batch-differs-from-rows', 'row %d (%r) of a batched gradient_logpdf is %r, the same point alone gives %r (batch %r); %s'
                            % (r, mixed[r].tolist(), gb2[r].tolist(), rows[r].tolist(), mixed.tolist(), ctx))
    # the same points handed over as float32 arrays (points that float32 represents exactly): density, log density and gradient
    # are functions of the point, not of the array's dtype
    X32 = X[:3].astype(np.float32)
    X64 = X32.astype(np.float64)
    with np.errstate(all='ignore'):
        with must_not_raise(P, 'evaluation at float32 points; ' + ctx):
            l32 = np.reshape(prior.logpdf(X32 if dim > 1 else X32[:, 0]), -1)
            l64 = np.reshape(prior.logpdf(X64 if dim > 1 else X64[:, 0]), -1)
            g32 = [np.reshape(prior.gradient_logpdf(r_ if dim > 1 else r_[0]), -1) for r_ in X32]
            g64 = [np.reshape(prior.gradient_logpdf(r_ if dim > 1 else r_[0]), -1) for r_ in X64]
    # (a float32 argument may legitimately be evaluated in float32 arithmetic: a few 1e-6 relative, more next to a pole)
    if not np.allclose(l32, l64, rtol=1e-3, atol=1e-3, equal_nan=True):
        raise Violation('C08:depends-on-point-dtype', 'logpdf of %r given as float32 is %r, as float64 %r; %s' % (X64.tolist(), l32.tolist(), l64.tolist(), ctx))
    for r in range(len(X32)):
        if np.all(np.isfinite(g64[r])) and not np.allclose(g32[r], g64[r], rtol=1e-3, atol=1e-4 * (1 + np.abs(g64[r]).max())):
            raise Violation('C08:depends-on-point-dtype', 'gradient_logpdf of %r given as float32 is %r, as float64 %r; %s' % (X64[r].tolist(), g32[r].tolist(), g64[r].tolist(), ctx))
    labels.append('float32-points')
    hier = any(a[0] == 'p' for nd in nodes if nd['name'] in names for a in nd['args'])
    if hier:
        labels.append('hierarchical')
    if nb:
        labels.append('boundary-points')
    if ng:
        labels.append('gradient-checked')
    if any(nd['dist'] in ('custom', 'custom-unif') for nd in nodes):
        labels.append('custom-distribution')
    nontrivial = True if (hier or kind != 'all-default') else None
    return CaseResult(sorted(set(labels)), nontrivial)


CHECK = Check(
    P, 'exploration',
    rule=('Hypothesis-generated models of 1-4 scalar parameters in random forests/chains with distributions uniform, norm, expon, gamma, beta, '
          'truncnorm, a user-defined scipy-like class and an elfi.Distribution subclass with rvs+pdf only (bounded support, inherited log density); location arguments constant or a parent parameter, scale arguments constant or '
          'a positive-support parent; parameter_names = default, a permutation, or an ancestor-closed strict subset; evaluation points = '
          'draws, points on a support boundary, points outside, points 20-30 scale units out in every unbounded coordinate at once (the product of densities underflows), the same points as float32 arrays; scalar / (dim,) / (n,dim) / (n,) inputs; gradient at interior draws and '
          'outside the support. Non-trivial = hierarchical model or a non-default subset/order.'),
    parts=[Part('model-prior', run_case, strategy=strat, examples={'quick': 400, 'thorough': 24000})],
    assumptions=['scipy.stats densities are the reference', 'subsets that omit an ancestor of a listed parameter are not generated (no defined meaning)',
                 'gradients are compared at points at least 1e-3 inside every support (elfi uses central differences with h=1e-5)'],
    design_ref='DESIGN.md section 4, C08',
    technique='Hypothesis-generated hierarchical models/points against a direct scipy product of conditional densities; numeric '
              'derivative of the reference for the gradient',
    level_text='Exploration: pdf/logpdf compared to 1e-10 with the scipy product at draws, boundary and outside points in all input '
               'shapes; zero/-inf patterns; positivity of draws; gradient against the derivative of the reference log density.',
    level_note='Trusts scipy.stats; gradient tolerance rtol 1e-4.')
