"""C13 - weighted-sample statistics and the shared-covariance Gaussian mixture.

Oracles: exact-rational quantile predicate, exact-rational reliability-weights variance and ESS,
direct scipy sum for the mixture density, and a logging constraint function for the sampler.
"""

from fractions import Fraction

import numpy as np
import scipy.stats as ss
from hypothesis import strategies as st

from ..core import CaseResult, Part, Violation, must_not_raise
from ..refmodels import weighted_quantile_ok
from ..runner import Check

P = 'C13'


# ------------------------------------------------------------------ generators

def _values(max_size=40, min_size=1):
    quant = st.integers(-64 * 8, 64 * 8).map(lambda k: k / 64.0)          # exact binary, ties likely
    small = st.integers(-3, 3).map(float)                                 # many ties
    generic = st.floats(-1e3, 1e3, allow_nan=False, allow_infinity=False, width=64)
    return st.one_of(st.lists(quant, min_size=min_size, max_size=max_size),
                     st.lists(small, min_size=min_size, max_size=max_size),
                     st.lists(generic, min_size=min_size, max_size=max_size))


def _weights(n, allow_none=True, min_pos=1):
    """Non-negative weights with zeros, bounded dynamic range [1e-3, 1e3]; at least min_pos positive."""
    pos = st.one_of(st.integers(1, 8).map(float), st.floats(1e-3, 1e3, allow_nan=False),
                    st.sampled_from([0.1, 0.2, 0.25, 0.5, 1.0]))
    counts = st.integers(1, 1000).map(float)          # whole-number weights (counts) beyond one digit
    w = st.lists(st.one_of(st.just(0.0), pos, pos), min_size=n, max_size=n)
    fixed_pos = st.lists(st.integers(0, n - 1), min_size=min_pos, max_size=min_pos, unique=True)

    def fix(args):
        ws, idxs, vals = args
        ws = list(ws)
        if sum(1 for v in ws if v > 0) < min_pos:
            for i, v in zip(idxs, vals):
                ws[i] = v
        return ws
    base = st.tuples(w, fixed_pos, st.lists(pos, min_size=min_pos, max_size=min_pos)).map(fix)
    equal = pos.map(lambda v: [v] * n)
    whole = st.lists(st.one_of(st.just(0.0), counts, counts), min_size=n, max_size=n).filter(lambda ws: sum(1 for v in ws if v > 0) >= min_pos)
    opts = [base, base, equal, whole]
    if allow_none:
        opts.append(st.none())
    return st.one_of(*opts)


def strat_quantile(tier):
    def build(xs):
        n = len(xs)
        alpha = st.one_of(st.sampled_from([0.0, 1.0, 0.5, 0.025, 0.975, 0.1, 0.3]),
                          st.floats(0.0, 1.0, allow_nan=False),
                          st.tuples(st.just('boundary'), st.integers(0, n)),
                          st.tuples(st.just('fboundary'), st.integers(0, n)))
        return st.fixed_dictionaries({
            'xs': st.just(xs), 'ws': _weights(n),
            'alphas': st.lists(alpha, min_size=1, max_size=6),
            'pow2': st.integers(-20, 20),
            'scale': st.floats(1e-3, 1e3, allow_nan=False),
            # whole-number values / weights (counts) handed over as integer arrays
            'int_inputs': st.sampled_from(['no', 'no', 'x', 'w', 'both']),
            'xpow': st.sampled_from([0, 0, 0, -40, 40, -300]),          # values uniformly tiny (1e-12, 1e-90) or large (1e12)
        })
    return _values().flatmap(build)


# ------------------------------------------------------------------ quantile

def _resolve_alphas(case):
    xs = np.array(case['xs'], dtype=float) * 2.0 ** case.get('xpow', 0)        # overall magnitude of the values (exact scaling)
    n = len(xs)
    ws = np.ones(n) if case['ws'] is None else np.array(case['ws'], dtype=float)
    order = np.argsort(xs, kind='stable')
    fw = [Fraction(float(v)) for v in ws[order]]
    tot = sum(fw)
    exact_cum = [Fraction(0)]
    for v in fw:
        exact_cum.append(exact_cum[-1] + v / tot)
    fcum = np.insert(np.cumsum(ws[order] / np.sum(ws)), 0, 0.0)
    out = []
    nb = 0
    for a in case['alphas']:
        if isinstance(a, (list, tuple)):
            nb += 1
            j = int(a[1])
            val = float(exact_cum[j]) if a[0] == 'boundary' else float(fcum[j])
            out.append(min(1.0, max(0.0, val)))
        else:
            out.append(float(a))
    return xs, ws, out, exact_cum, nb


def run_quantile(case):
    from elfi.methods.utils import weighted_sample_quantile
    xs, ws, alphas, exact_cum, nb = _resolve_alphas(case)
    wargs = None if case['ws'] is None else ws
    labels = []
    res = []
    for a in alphas:
        xin, win = xs.copy(), (None if wargs is None else wargs.copy())
        ii = case.get('int_inputs', 'no')
        if ii in ('x', 'both') and np.all(xin == np.round(xin)):
            xin = xin.astype(np.int64)
        if ii in ('w', 'both') and win is not None and np.all(win == np.round(win)):
            win = win.astype(np.int64)
        with must_not_raise(P, 'weighted_sample_quantile(x=%r (dtype %s), alpha=%r, weights=%r (dtype %s))' % (xs.tolist(), xin.dtype, a, case['ws'], None if win is None else win.dtype)):
            q = weighted_sample_quantile(xin, a, weights=win)
        q = float(q)
        ok, why = weighted_quantile_ok(xs, ws, a, q)
        if not ok:
            raise Violation('C13:quantile-predicate',
                            'weighted_sample_quantile(x=%r, alpha=%r, weights=%r) = %r: %s' % (xs.tolist(), a, case['ws'], q, why))
        res.append((a, q))
        # invariance under rescaling of the weights
        if wargs is not None:
            q2 = float(weighted_sample_quantile(xs.copy(), a, weights=wargs * (2.0 ** case['pow2'])))
            if q2 != q:
                raise Violation('C13:quantile-scale-pow2', 'weights * 2**%d changed the %r-quantile from %r to %r (x=%r w=%r)'
                                % (case['pow2'], a, q, q2, xs.tolist(), case['ws']))
            near = any(abs(float(c) - a) < 1e-9 for c in exact_cum)
            if not near:
                q3 = float(weighted_sample_quantile(xs.copy(), a, weights=wargs * case['scale']))
                if q3 != q:
                    raise Violation('C13:quantile-scale', 'weights * %r changed the %r-quantile from %r to %r (x=%r w=%r)'
                                    % (case['scale'], a, q, q3, xs.tolist(), case['ws']))
            else:
                labels.append('alpha-at-boundary')
    # monotone in alpha
    res.sort()
    for (a1, q1), (a2, q2) in zip(res, res[1:]):
        if q2 < q1:
            raise Violation('C13:quantile-monotone', 'quantile not monotone: alpha %r -> %r but alpha %r -> %r (x=%r w=%r)'
                            % (a1, q1, a2, q2, xs.tolist(), case['ws']))
    ties = len(set(xs.tolist())) < len(xs)
    zeros = case['ws'] is not None and any(w == 0 for w in case['ws'])
    if ties:
        labels.append('ties')
    if zeros:
        labels.append('zero-weights')
    if case['ws'] is None:
        labels.append('weights=None')
    if len(xs) == 1:
        labels.append('single-element')
    if any(a in (0.0, 1.0) for a in alphas):
        labels.append('alpha-0-or-1')
    if list(xs) != sorted(xs):
        labels.append('unsorted')
    nontrivial = True if (ties or zeros or nb or 'alpha-at-boundary' in labels) and len(xs) >= 2 else None
    return CaseResult(sorted(set(labels)), nontrivial)


# ------------------------------------------------------------------ variance / ESS

def strat_var(tier):
    def build(n):
        col = _values(max_size=n, min_size=n)
        return st.fixed_dictionaries({
            'cols': st.lists(col, min_size=1, max_size=3),
            'ws': _weights(n, min_pos=2),
            'oned': st.booleans(),
            'int_inputs': st.sampled_from(['no', 'no', 'x', 'w', 'both']),
            'int_dtype': st.integers(0, 3),
            'xpow': st.sampled_from([0, 0, 0, -40, 40, -100]),
        })
    return st.integers(2, 30).flatmap(build)


def run_var(case):
    from elfi.methods.utils import compute_ess, weighted_var
    cols = [np.array(c, dtype=float) * 2.0 ** case.get('xpow', 0) for c in case['cols']]
    n = len(cols[0])
    x = cols[0] if (case['oned'] and len(cols) == 1) else np.column_stack(cols)
    ws = None if case['ws'] is None else np.array(case['ws'], dtype=float)
    xin, win = x.copy(), (None if ws is None else ws.copy())
    ii = case.get('int_inputs', 'no')
    if ii in ('x', 'both') and np.all(xin == np.round(xin)):
        xin = xin.astype(np.int64)
    if ii in ('w', 'both') and win is not None and np.all(win == np.round(win)):
        win = win.astype(np.int64)
    with must_not_raise(P, 'weighted_var (x dtype %s, weights dtype %s)' % (xin.dtype, None if win is None else win.dtype)):
        s2 = np.atleast_1d(weighted_var(xin, win))
    fw = [Fraction(1)] * n if ws is None else [Fraction(float(v)) for v in ws]
    V1 = sum(fw)
    V2 = sum(v * v for v in fw)
    if s2.shape != (len(cols),):
        raise Violation('C13:var-shape', 'weighted_var returned shape %r for %d columns' % (s2.shape, len(cols)))
    for j, c in enumerate(cols):
        fx = [Fraction(float(v)) for v in c]
        xbar = sum(w * v for w, v in zip(fw, fx)) / V1
        num = sum(w * (v - xbar) ** 2 for w, v in zip(fw, fx))
        ref = float(num / (V1 - V2 / V1))
        scale = max(abs(float(v)) for v in c) or 1.0
        # (1e-300: a variance in the subnormal range cannot be computed to relative accuracy by anyone)
        if not abs(float(s2[j]) - ref) <= 1e-6 * abs(ref) + max(1e-24 * scale * scale, 1e-300):
            raise Violation('C13:weighted-var', 'weighted_var(x=%r, w=%r)[%d] = %r, reliability-weights formula gives %r'
                            % (c.tolist(), case['ws'], j, float(s2[j]), ref))
    labels = []
    if ws is not None:
        wess = ws.copy()
        if case.get('int_inputs', 'no') in ('w', 'both') and np.all(wess == np.round(wess)):
            # counts as weights, in the narrowest integer type that holds them (their SQUARES need not fit)
            fits = [dt for dt in ('uint8', 'int16', 'int32', 'int64') if wess.max() <= np.iinfo(dt).max]
            wess = wess.astype(fits[case.get('int_dtype', 0) % len(fits)])
        with must_not_raise(P, 'compute_ess (weights dtype %s)' % wess.dtype):
            ess = float(compute_ess(wess))
        ref = float(V1 * V1 / V2)
        if not abs(ess - ref) <= 1e-10 * ref:
            raise Violation('C13:ess', 'compute_ess(%r as %s) = %r, (sum w)^2/sum w^2 = %r' % (case['ws'], wess.dtype, ess, ref))
        if any(v == 0 for v in case['ws']):
            labels.append('zero-weights')
        if len(set(case['ws'])) > 1:
            labels.append('unequal-weights')
    else:
        labels.append('weights=None')
    labels.append('cols=%d' % len(cols))
    return CaseResult(labels, True if ('unequal-weights' in labels) else None)


# ------------------------------------------------------------------ mixture density

def _spd(d, seed, cond):
    rs = np.random.RandomState(seed)
    q, _ = np.linalg.qr(rs.randn(d, d))
    ev = np.exp(rs.uniform(0, np.log(cond), size=d)) * rs.uniform(0.05, 2.0)
    m = (q * ev).dot(q.T)
    return (m + m.T) / 2


def strat_pdf(tier):
    return st.fixed_dictionaries({
        'd': st.integers(1, 4), 'K': st.integers(1, 8), 'data_seed': st.integers(0, 10 ** 6),
        'cov_kind': st.sampled_from(['scalar', 'matrix', 'default']),
        'cond': st.sampled_from([1.0, 10.0, 100.0]),
        'weights': st.sampled_from(['none', 'equal', 'unequal', 'with-zero']),
        'xshape': st.sampled_from(['scalar', '1d', '2d', '2d-one-row']),
        'npts': st.integers(1, 6), 'spread': st.sampled_from([0.5, 3.0, 30.0]),
        # further evaluations after the covariance changed: the SAME array object updated in place, or fresh objects
        'again': st.sampled_from(['no', 'no', 'in-place', 'fresh']),
    })


def _gm_setup(case):
    d, K = case['d'], case['K']
    if d >= 2 and K < 2:
        K = 2           # one component in d>=2 is ambiguous for the squeeze in _normalize_params; SMC never does it
    rs = np.random.RandomState(case['data_seed'])
    means = rs.randn(K, d) * 2.0
    if d == 1:
        means = means[:, 0]
    if case['cov_kind'] == 'scalar':
        cov = float(rs.uniform(0.1, 3.0))
    elif case['cov_kind'] == 'default':
        cov = None
    else:
        cov = _spd(d, case['data_seed'] + 1, case['cond'])
        if d == 1:
            cov = float(cov[0, 0]) if rs.rand() < 0.5 else cov
    if case['weights'] == 'none':
        w = None
    elif case['weights'] == 'equal':
        w = np.full(K, 0.7)
    else:
        w = rs.uniform(0.05, 5.0, size=K)
        if case['weights'] == 'with-zero' and K >= 2:
            w[rs.randint(K)] = 0.0
    return d, K, means, cov, w, rs


def run_pdf(case):
    from elfi.methods.utils import GMDistribution
    d, K, means, cov, w, rs = _gm_setup(case)
    n = case['npts']
    pts = rs.randn(n, d) * case['spread']
    xs = case['xshape']
    if d == 1:
        if xs == 'scalar':
            x = float(pts[0, 0]); ref_pts = pts[:1]; shape = ()
        elif xs == '1d':
            x = pts[:, 0]; ref_pts = pts; shape = (n,)
        elif xs == '2d':
            x = pts; ref_pts = pts; shape = (n,)
        else:
            x = pts[:1]; ref_pts = pts[:1]; shape = (1,)
    else:
        if xs in ('scalar', '1d'):
            x = pts[0]; ref_pts = pts[:1]; shape = ()
        elif xs == '2d':
            x = pts; ref_pts = pts; shape = (n,)
        else:
            x = pts[:1]; ref_pts = pts[:1]; shape = (1,)
    labels = ['d=%d' % d, 'cov=' + case['cov_kind'], 'x=' + xs, 'w=' + case['weights']]
    _pdf_once(case, d, K, means, cov, w, x, ref_pts, shape, '')
    again = case.get('again', 'no')
    if again != 'no' and cov is not None:
        for rnd, f in enumerate((4.0, 0.3, 2.5)):
            if again == 'in-place' and np.ndim(cov) == 2:
                cov *= f                       # the caller's array object, updated in place
            else:
                cov = cov * f                  # a fresh object (the previous one is released)
            _pdf_once(case, d, K, means, cov, w, x, ref_pts, shape, ' [evaluation %d after the covariance was changed %s]' % (rnd + 2, again))
        labels.append('covariance-changed-' + again)
    nontrivial = True if (K >= 3 and case['weights'] in ('unequal', 'with-zero')) else None
    return CaseResult(labels, nontrivial)


def _pdf_once(case, d, K, means, cov, w, x, ref_pts, shape, note):
    from elfi.methods.utils import GMDistribution
    kw = {}
    if cov is not None:
        kw['cov'] = cov
    if w is not None:
        kw['weights'] = w
    with must_not_raise(P, 'GMDistribution.pdf/logpdf (d=%d K=%d x shape %s)%s' % (d, K, np.shape(x), note)):
        pdf = GMDistribution.pdf(x, means, **kw)
        with np.errstate(divide='ignore'):
            logpdf = GMDistribution.logpdf(x, means, **kw)
    wn = np.ones(K) / K if w is None else w / w.sum()
    C = 1.0 if cov is None else cov
    Cm = np.atleast_2d(C) if np.ndim(C) == 2 else np.eye(d) * C
    M = np.reshape(means, (K, d))
    ref = np.zeros(len(ref_pts))
    for k in range(K):
        ref += wn[k] * ss.multivariate_normal(mean=M[k], cov=Cm).pdf(ref_pts).reshape(-1)
    if np.shape(pdf) != shape:
        raise Violation('C13:gm-pdf-shape', 'pdf of x with shape %r (d=%d, K=%d) has shape %r, expected %r'
                        % (np.shape(x), d, K, np.shape(pdf), shape))
    got = np.reshape(pdf, -1)
    if not np.allclose(got, ref, rtol=1e-9, atol=1e-300):
        raise Violation('C13:gm-pdf', 'GMDistribution.pdf = %r but the weighted sum of component densities is %r (d=%d K=%d cov=%s weights=%s seed=%d)%s'
                        % (got.tolist(), ref.tolist(), d, K, case['cov_kind'], case['weights'], case['data_seed'], note))
    with np.errstate(divide='ignore'):
        reflog = np.log(ref)
    gl = np.reshape(logpdf, -1)
    if np.shape(logpdf) != shape:
        raise Violation('C13:gm-logpdf-shape', 'logpdf shape %r, expected %r' % (np.shape(logpdf), shape))
    fin = np.isfinite(reflog)
    if not (np.array_equal(np.isfinite(gl), fin) and np.allclose(gl[fin], reflog[fin], rtol=1e-9, atol=1e-9)):
        raise Violation('C13:gm-logpdf', 'GMDistribution.logpdf = %r but log of the mixture density is %r%s' % (gl.tolist(), reflog.tolist(), note))


# ------------------------------------------------------------------ constrained sampler

def strat_rvs(tier):
    return st.fixed_dictionaries({
        'd': st.integers(1, 4), 'K': st.integers(1, 8), 'data_seed': st.integers(0, 10 ** 6),
        'cov_kind': st.sampled_from(['scalar', 'matrix', 'default']),
        'cond': st.sampled_from([1.0, 10.0]),
        'weights': st.sampled_from(['none', 'equal', 'unequal', 'with-zero']),
        'size': st.one_of(st.none(), st.integers(1, 30), st.integers(1, 3), st.just(0)),
        'constraint': st.sampled_from(['none', 'all', 'halfspace', 'box', 'tight']),
        'seed': st.integers(0, 2 ** 32 - 1),
    })


class _Constraint(object):
    def __init__(self, kind, d, means, cov=None, w=None):
        # regions are anchored at the heaviest component so that they always carry mixture mass
        # (elfi keeps proposing for ever when the constraint has none - by design)
        self.kind = kind
        self.d = d
        M = np.reshape(means, (-1, d))
        k = 0 if w is None else int(np.argmax(w))
        self.c = M[k].copy()
        if cov is None:
            sd = np.ones(d)
        elif np.ndim(cov) == 2:
            sd = np.sqrt(np.diag(cov))
        else:
            sd = np.ones(d) * np.sqrt(cov)
        self.span = np.ptp(M, axis=0) + 2.0 * sd
        self.sd = sd
        self.accepted = []
        self.n_eval = 0
        self.calls = 0

    def ok(self, x):
        X = np.reshape(x, (-1, self.d))
        if self.kind == 'all':
            return np.ones(len(X), bool)
        if self.kind == 'halfspace':
            return X[:, 0] >= self.c[0]
        if self.kind == 'box':
            return np.all(np.abs(X - self.c) <= self.span, axis=1)
        if self.kind == 'tight':       # ~10-30 % acceptance
            return np.all(np.abs(X[:, :1] - self.c[:1]) <= 0.5 * self.sd[:1], axis=1) & (X[:, -1] >= self.c[-1])
        raise ValueError(self.kind)

    def __call__(self, x):
        self.calls += 1
        ok = self.ok(x)
        X = np.reshape(x, (-1, self.d))
        self.n_eval += len(X)
        for row in X[ok]:
            self.accepted.append(row.copy())
        return np.where(ok, 0.0, -np.inf)


def run_rvs(case):
    from elfi.methods.utils import GMDistribution
    d, K, means, cov, w, rs = _gm_setup(case)
    kw = {}
    if cov is not None:
        kw['cov'] = cov
    if w is not None:
        kw['weights'] = w
    size = case['size']
    n = 1 if size is None else size
    cons = None if case['constraint'] == 'none' else _Constraint(case['constraint'], d, means, cov, w)
    with must_not_raise(P, 'GMDistribution.rvs(size=%r, d=%d, K=%d, constraint=%s)' % (size, d, K, case['constraint'])):
        out = GMDistribution.rvs(means, size=size, prior_logpdf=cons, random_state=np.random.RandomState(case['seed']), **kw)
    out = np.asarray(out)
    point_shape = () if d == 1 else (d,)
    exp_shape = point_shape if size is None else (n,) + point_shape
    if out.shape != exp_shape:
        raise Violation('C13:rvs-count', 'rvs(size=%r) with d=%d returned shape %r, expected %r' % (size, d, out.shape, exp_shape))
    rows = np.reshape(out, (n, d))
    if not np.all(np.isfinite(rows)):
        raise Violation('C13:rvs-nonfinite', 'rvs returned non-finite values: %r' % rows.tolist())
    labels = ['d=%d' % d, 'constraint=' + case['constraint'], 'size=None' if size is None else ('size=0' if n == 0 else ('size=1' if n == 1 else 'size>1'))]
    nontrivial = None
    if cons is not None:
        if not np.all(cons.ok(rows)):
            bad = rows[~cons.ok(rows)]
            raise Violation('C13:rvs-constraint', 'rvs returned %d point(s) violating the constraint %s, e.g. %r'
                            % (len(bad), case['constraint'], bad[0].tolist()))
        acc = np.array(cons.accepted[:n]).reshape(-1, d)
        if len(acc) < n or not np.array_equal(acc, rows):
            raise Violation('C13:rvs-not-the-accepted-proposals',
                            'returned rows are not the first %d proposals accepted by the constraint, in order (accepted %d of %d evaluated)'
                            % (n, len(cons.accepted), cons.n_eval))
        rate = len(cons.accepted) / max(1, cons.n_eval)
        if rate < 0.5:
            labels.append('acceptance<50%')
            nontrivial = True
        if cons.calls > 1:
            labels.append('needed-retry')
    # the array that was returned belongs to the caller: later calls (same size, another seed) must not change it
    snap = out.copy()
    cons_b = None if cons is None else _Constraint(case['constraint'], d, means, cov, w)
    GMDistribution.rvs(means, size=size, prior_logpdf=cons_b, random_state=np.random.RandomState((case['seed'] + 1) % (2 ** 32)), **kw)
    if not np.array_equal(out, snap):
        raise Violation('C13:rvs-result-overwritten-by-later-call', 'the points returned by rvs(size=%r) changed when rvs was called again with another seed: %r became %r'
                        % (size, snap.tolist(), np.asarray(out).tolist()))
    # deterministic in the seed; a constraint that accepts everything changes nothing
    cons2 = None if cons is None else _Constraint(case['constraint'], d, means, cov, w)
    out2 = np.asarray(GMDistribution.rvs(means, size=size, prior_logpdf=cons2, random_state=np.random.RandomState(case['seed']), **kw))
    if not np.array_equal(out, out2):
        raise Violation('C13:rvs-nondeterministic', 'two calls with RandomState(%d) differ' % case['seed'])
    if case['constraint'] == 'all':
        out3 = np.asarray(GMDistribution.rvs(means, size=size, prior_logpdf=None, random_state=np.random.RandomState(case['seed']), **kw))
        if not np.array_equal(out, out3):
            raise Violation('C13:rvs-accept-all-differs', 'an always-satisfied constraint changed the draws')
    return CaseResult(labels, nontrivial)


def strat_rvs_moments(tier):
    return st.fixed_dictionaries({
        'd': st.integers(1, 3), 'K': st.integers(2, 5), 'data_seed': st.integers(0, 10 ** 6),
        'cov_kind': st.sampled_from(['scalar', 'matrix']), 'cond': st.just(10.0),
        'weights': st.sampled_from(['unequal', 'with-zero', 'none']),
        'seed': st.integers(0, 2 ** 32 - 1),
    })


def run_rvs_moments(case):
    """Unconstrained draws reproduce the mixture mean (5.5 standard errors, fixed seed)."""
    from elfi.methods.utils import GMDistribution
    d, K, means, cov, w, rs = _gm_setup(case)
    kw = {'cov': cov}
    if w is not None:
        kw['weights'] = w
    n = 4000
    with must_not_raise(P, 'GMDistribution.rvs moments'):
        out = np.reshape(GMDistribution.rvs(means, size=n, random_state=np.random.RandomState(case['seed']), **kw), (n, d))
    wn = np.ones(K) / K if w is None else w / w.sum()
    M = np.reshape(means, (K, d))
    Cm = np.atleast_2d(cov) if np.ndim(cov) == 2 else np.eye(d) * cov
    mu = wn.dot(M)
    tot = Cm + (M - mu).T.dot((M - mu) * wn[:, None])
    se = np.sqrt(np.diag(tot) / n)
    z = np.abs(out.mean(axis=0) - mu) / se
    if np.any(z > 5.5):
        raise Violation('C13:rvs-mean', 'sample mean of %d draws is %.1f standard errors from the mixture mean (d=%d K=%d weights=%s)'
                        % (n, z.max(), d, K, case['weights']))
    v = out.var(axis=0) / np.diag(tot)
    if np.any(v < 0.8) or np.any(v > 1.25):
        raise Violation('C13:rvs-var', 'sample variance / mixture variance = %r' % v.tolist())
    return CaseResult(['d=%d' % d, 'w=' + case['weights']], True if case['weights'] != 'none' else None)


CHECK = Check(
    P, 'exploration',
    rule=('Hypothesis-generated samples (1..40 values; multiples of 1/64, small integers or generic doubles; arbitrary order), '
          'weight vectors (None, equal, with zeros, range 1e-3..1e3), whole-number values / weights also as integer arrays (narrowest dtype that holds them), values scaled by 2^-100..2^40, alphas incl. 0, 1 and exact cumulative boundaries; mixtures '
          'with d 1..4, K 1..8 (K>=2 when d>=2), scalar/SPD/default covariance, all input shapes, optionally up to three further evaluations after the covariance was changed in place or replaced; constrained sampler with '
          'half-space/box/tight constraints, sizes None / 0 / 1-30, the returned array re-checked after a later call. Non-trivial: quantile = ties, zero weights or a boundary alpha with >=2 values; '
          'variance = unequal weights; density = K>=3 with unequal weights; sampler = acceptance below 50 %.'),
    parts=[
        Part('quantile', run_quantile, strategy=strat_quantile, examples={'quick': 3000, 'thorough': 100000}),
        Part('var-ess', run_var, strategy=strat_var, examples={'quick': 1500, 'thorough': 40000}),
        Part('gm-pdf', run_pdf, strategy=strat_pdf, examples={'quick': 1200, 'thorough': 30000}),
        Part('gm-rvs', run_rvs, strategy=strat_rvs, examples={'quick': 1200, 'thorough': 30000}),
        Part('gm-rvs-moments', run_rvs_moments, strategy=strat_rvs_moments, examples={'quick': 40, 'thorough': 800},
             shards={'quick': 4, 'thorough': 16}),
    ],
    assumptions=['scipy.stats.multivariate_normal is the reference normal density',
                 'weights have a dynamic range of at most 1e6 and |x| <= 1e3 so that float rounding of a correct '
                 'implementation stays below the stated tolerances (variance rtol 1e-6, ESS 1e-10, pdf 1e-9)',
                 'one mixture component in d>=2 is not generated (shape ambiguity outside SMC usage)'],
    design_ref='DESIGN.md section 4, C13',
    technique='Hypothesis-generated inputs against exact-rational / direct-scipy reference definitions, metamorphic '
              'weight-rescaling and monotonicity relations, logging constraint oracle for the sampler',
    level_text='Exploration: thousands of generated samples/weights/alphas/mixtures per run, each compared with an '
               'independent evaluation of the definition (exact rational arithmetic for the quantile predicate and the '
               'variance). Detects any deviation from the definitions on the generated domain; not a proof.',
    level_note='Trusts scipy/numpy reference arithmetic and the stated float tolerances; statistical moment part uses '
               'fixed seeds and 5.5-sigma bounds.')
