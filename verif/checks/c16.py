"""C16 - result objects report what the sampler produced, and survive saving.

Oracles: direct numpy/fsum evaluation, the exact-rational quantile predicate of C13, round-trips
through pickle / json / csv read back with the standard library, naive O(n^2) reference
implementations of ESS and split R-hat, affine / permutation metamorphic relations.
"""

import csv
import json
import math
import os
import pickle
import shutil
import tempfile

import numpy as np
from hypothesis import strategies as st

from ..core import CaseResult, Part, Violation, must_not_raise
from ..refmodels import weighted_quantile_ok
from ..runner import Check

P = 'C16'
PN = ['t1', 'a', 'Zeta', 'mu', 'b_2', 'T', 'x10', 'x9']


def values(n):
    generic = st.floats(-1e150, 1e150, allow_nan=False, allow_infinity=False)
    small = st.sampled_from([0.0, -0.0, 1e-300, -1e-300, 1.0, 0.1, 1 / 3.0, 5e-324, 123456789.123456789])
    mid = st.floats(-1e3, 1e3, allow_nan=False)
    whole = st.one_of(st.integers(-9, 9), st.integers(-10 ** 6, 10 ** 6)).map(float)      # integer-valued parameters
    return st.one_of(st.lists(st.one_of(generic, small, mid, mid), min_size=n, max_size=n),
                     st.lists(st.one_of(generic, small, mid, mid), min_size=n, max_size=n),
                     st.lists(whole, min_size=n, max_size=n))


def strat_sample(tier):
    def build(args):
        names, n = args
        return st.fixed_dictionaries({
            'names': st.just(names), 'n': st.just(n),
            'cols': st.lists(values(n), min_size=len(names), max_size=len(names)),
            'extra': st.one_of(st.none(), values(n)),
            'weights': st.one_of(st.none(), st.lists(st.one_of(st.floats(1e-3, 1e3, allow_nan=False), st.integers(1, 5).map(float)), min_size=n, max_size=n)),
            'formats': st.lists(st.sampled_from(['pkl', 'json', 'csv']), min_size=1, max_size=3),
            # key order of the outputs dict handed to the constructor (None: parameter-name order, then the discrepancy)
            'outputs_order': st.one_of(st.none(), st.integers(0, 1000)),
            # whole-number columns stored as integer arrays (integer-valued parameters, e.g. a randint prior)
            'int_cols': st.sampled_from([False, False, True]),
            # the weights are handed to the constructor, or assigned to the finished object (`sample.weights = w`, as SMC does for
            # its populations)
            'weights_late': st.booleans(),
        })
    return st.tuples(st.lists(st.sampled_from(PN), min_size=1, max_size=4, unique=True), st.integers(1, 60)).flatmap(build)


def _stats(s):
    out = {}
    out['means'] = [float(v) for v in s.sample_means.values()]
    out['ci'] = [(float(a), float(b), float(c)) for a, b, c in s.sample_means_and_95CIs.values()]
    out['array'] = np.array(s.samples_array)
    return out


def run_sample(case):
    from elfi.methods.results import Sample
    names, n = case['names'], case['n']
    cols = {nm: np.array(c, dtype=float) for nm, c in zip(names, case['cols'])}
    if case.get('int_cols'):
        for nm in names:
            c = cols[nm]
            if np.all(c == np.round(c)) and np.all(np.abs(c) < 2 ** 52) and not np.any(np.signbit(c) & (c == 0)):
                cols[nm] = c.astype(np.int64)
    has_int = any(v.dtype.kind == 'i' for v in cols.values())
    outputs = dict(cols)
    if case['extra'] is not None:
        outputs['d'] = np.array(case['extra'], dtype=float)
    if case.get('outputs_order') is not None:
        import random
        keys = list(outputs)
        random.Random(case['outputs_order']).shuffle(keys)
        outputs = {k: outputs[k] for k in keys}
    w = None if case['weights'] is None else np.array(case['weights'], dtype=float)
    ctx = 'names=%r n=%d weights=%s formats=%r outputs keyed %r' % (names, n, 'yes' if w is not None else 'none', case['formats'], list(outputs))
    with must_not_raise(P, 'constructing the Sample; ' + ctx):
        late = bool(case.get('weights_late')) and w is not None
        s = Sample(method_name='test', outputs={k: v.copy() for k, v in outputs.items()}, parameter_names=list(names),
                   discrepancy_name='d' if 'd' in outputs else None, weights=None if (w is None or late) else w.copy(), n_sim=3 * n)
        if late:
            s.weights = w.copy()
        arr = np.asarray(s.samples_array)
    if arr.shape != (n, len(names)):
        raise Violation('C16:samples-array-shape', 'samples_array has shape %r for %d samples of %d parameters; %s' % (arr.shape, n, len(names), ctx))
    for j, nm in enumerate(names):
        if not np.array_equal(arr[:, j], cols[nm]):
            raise Violation('C16:column-order', 'column %d of samples_array is not parameter %r (parameter_names order %r); %s' % (j, nm, names, ctx))
    if list(s.samples.keys()) != list(names):
        raise Violation('C16:samples-order', 'samples keys %r, parameter_names %r; %s' % (list(s.samples.keys()), names, ctx))
    with must_not_raise(P, 'sample statistics; ' + ctx):
        before = _stats(s)
    ww = np.ones(n) if w is None else w
    for j, nm in enumerate(names):
        x = cols[nm]
        ref = math.fsum(float(a) * float(b) for a, b in zip(ww, x)) / math.fsum(ww)
        tol = 1e-12 * max(abs(float(v)) for v in x) + 1e-300
        if not abs(before['means'][j] - ref) <= tol:
            raise Violation('C16:mean', 'mean of %s is %r, weighted average is %r; %s' % (nm, before['means'][j], ref, ctx))
        m_, lo, hi = before['ci'][j]
        for alpha, q in ((0.025, lo), (0.975, hi)):
            ok, why = weighted_quantile_ok(x, ww, alpha, q)
            if not ok:
                raise Violation('C16:interval', '%s: the %.3f interval end %r is not a weighted quantile of the stored column (%s); %s' % (nm, alpha, q, why, ctx))
    tmp = tempfile.mkdtemp(prefix='c16-', dir=os.environ.get('VERIF_TMP'))
    labels = ['integer-typed-column'] if has_int else []
    try:
        for fmt in case['formats']:
            fn = os.path.join(tmp, 'sample.' + fmt)
            with must_not_raise(P, 'save(%s); %s' % (fmt, ctx)):
                s.save(fn)
            if fmt == 'pkl':
                with open(fn, 'rb') as f:
                    back = pickle.load(f)
                got = {nm: np.asarray(back.samples[nm]) for nm in names}
                order = list(back.samples.keys())
            elif fmt == 'json':
                with open(fn) as f:
                    data = json.load(f)
                got = {nm: np.array(data['samples'][nm], dtype=float) for nm in names if nm in data.get('samples', {})}
                order = list(data.get('samples', {}).keys())
            else:
                with open(fn, newline='') as f:
                    rows = list(csv.reader(f))
                order = rows[0]
                got = {nm: np.array([float(r[i]) for r in rows[1:]], dtype=float) for i, nm in enumerate(order)}
            if order != list(names):
                raise Violation('C16:saved-column-order', '%s file lists the parameters as %r, parameter_names is %r; %s' % (fmt, order, names, ctx))
            for nm in names:
                a, b = got.get(nm), cols[nm]
                if a is None or a.shape != b.shape or not np.array_equal(a, b) or not np.array_equal(np.signbit(a), np.signbit(b)):
                    raise Violation('C16:save-roundtrip', 'reading %s back gives %r for %s, stored samples are %r; %s'
                                    % (fmt, None if a is None else a.tolist(), nm, b.tolist(), ctx))
            with must_not_raise(P, 'statistics after save(%s); %s' % (fmt, ctx)):
                after = _stats(s)
            if after['means'] != before['means'] or after['ci'] != before['ci'] or not np.array_equal(after['array'], before['array']):
                raise Violation('C16:save-changes-object', 'statistics of the in-memory object changed by save(%s); %s' % (fmt, ctx))
            for nm in names:
                if not isinstance(s.samples[nm], np.ndarray):
                    raise Violation('C16:save-changes-object', 'after save(%s) samples[%r] is a %s; %s' % (fmt, nm, type(s.samples[nm]).__name__, ctx))
            labels.append('format=' + fmt)
    finally:
        shutil.rmtree(tmp, ignore_errors=True)
    unsorted = list(names) != sorted(names)
    if unsorted:
        labels.append('non-alphabetical-names')
    if w is not None:
        labels.append('weights')
    return CaseResult(sorted(set(labels)), True if (len(names) >= 2 and unsorted) else None)


# ------------------------------------------------------------------ BolfiSample

def strat_bolfi(tier):
    return st.fixed_dictionaries({
        'n_chains': st.integers(1, 5), 'n_iter': st.integers(2, 40), 'dim': st.integers(1, 4),
        'warm': st.integers(0, 10 ** 6), 'names': st.permutations(PN),
    })


def run_bolfi(case):
    from elfi.methods.results import BolfiSample
    C, N, D = case['n_chains'], case['n_iter'], case['dim']
    warm = case['warm'] % N
    names = list(case['names'][:D])
    chains = np.zeros((C, N, D))
    for c in range(C):
        for i in range(N):
            for p in range(D):
                chains[c, i, p] = c * 10000 + i * 10 + p
    ctx = 'n_chains=%d n_iter=%d dim=%d warmup=%d names=%r' % (C, N, D, warm, names)
    with must_not_raise(P, 'BolfiSample; ' + ctx):
        s = BolfiSample(method_name='BOLFI', chains=chains.copy(), parameter_names=list(names), warmup=warm, threshold=1.0)
        arr = np.asarray(s.samples_array)
    for p, nm in enumerate(names):
        exp = np.concatenate([chains[c, warm:, p] for c in range(C)])
        got = np.asarray(s.samples[nm])
        if got.shape != exp.shape or not np.array_equal(got, exp):
            raise Violation('C16:bolfi-sample-layout', 'parameter %s: samples %r, expected each chain with exactly the %d warm-up states removed, chain by chain: %r; %s'
                            % (nm, got.tolist(), warm, exp.tolist(), ctx))
        if not np.array_equal(arr[:, p], exp):
            raise Violation('C16:bolfi-sample-array', 'samples_array column %d is not parameter %s; %s' % (p, nm, ctx))
    if s.n_samples != C * (N - warm):
        raise Violation('C16:bolfi-n_samples', 'n_samples %r, expected %d; %s' % (s.n_samples, C * (N - warm), ctx))
    return CaseResult(['chains=%d' % min(C, 3), 'warmup>0' if warm else 'warmup=0'], True if (C >= 2 and warm > 0) else None)


# ------------------------------------------------------------------ SMC / BSL result objects

def strat_derived(tier):
    return st.fixed_dictionaries({
        'names': st.lists(st.sampled_from(PN), min_size=1, max_size=3, unique=True),
        'n': st.integers(1, 20), 'npop': st.integers(1, 4), 'seed': st.integers(0, 10 ** 6),
        'burn': st.integers(0, 10 ** 6), 'fmt': st.sampled_from(['json', 'pkl', 'csv']),
    })


def run_derived(case):
    from elfi.methods.results import BslSample, Sample, SmcSample
    names, n = case['names'], case['n']
    rs = np.random.RandomState(case['seed'])
    ctx = 'names=%r n=%d populations=%d format=%s' % (names, n, case['npop'], case['fmt'])
    # BslSample: the burn-in prefix is removed from every parameter, nothing else
    N = n + 5
    burn = case['burn'] % N
    all_s = {nm: rs.randn(N) + i for i, nm in enumerate(names)}
    with must_not_raise(P, 'BslSample; ' + ctx):
        b = BslSample(method_name='BSL', samples_all={k: v.copy() for k, v in all_s.items()}, parameter_names=list(names), burn_in=burn, acc_rate=0.5)
    for j, nm in enumerate(names):
        if not np.array_equal(np.asarray(b.samples[nm]), all_s[nm][burn:]) or not np.array_equal(np.asarray(b.samples_array)[:, j], all_s[nm][burn:]):
            raise Violation('C16:bsl-burn-in', 'BslSample parameter %s is not samples_all[%d:]; %s' % (nm, burn, ctx))
    # SmcSample: populations survive saving
    pops = []
    for k in range(case['npop']):
        outs = {nm: rs.randn(n) * (k + 1) for nm in names}
        outs['d'] = np.sort(rs.rand(n))
        pops.append(Sample(method_name='pop', outputs=outs, parameter_names=list(names), discrepancy_name='d', weights=rs.rand(n) + 0.1,
                           n_sim=10 * (k + 1), threshold=float(outs['d'][-1])))
    last = pops[-1]
    with must_not_raise(P, 'SmcSample; ' + ctx):
        s = SmcSample(method_name='SMC', outputs={k: v.copy() for k, v in last.outputs.items()}, parameter_names=list(names), populations=list(pops),
                      discrepancy_name='d', weights=last.weights.copy(), n_sim=100, threshold=last.threshold)
    before = {nm: np.asarray(s.samples[nm]).copy() for nm in names}
    tmp = tempfile.mkdtemp(prefix='c16d-', dir=os.environ.get('VERIF_TMP'))
    try:
        fn = os.path.join(tmp, 's.' + case['fmt'])
        with must_not_raise(P, 'SmcSample.save(%s); %s' % (case['fmt'], ctx)):
            s.save(fn)
        if case['fmt'] == 'json':
            data = json.load(open(fn))
            got_pops = data.get('populations', {})
            if len(got_pops) != case['npop']:
                raise Violation('C16:smc-json-populations', 'json holds %d populations, the sample has %d; %s' % (len(got_pops), case['npop'], ctx))
            for key, pop in zip(sorted(got_pops), pops):
                for nm in names:
                    a = np.array(got_pops[key]['samples'][nm], dtype=float)
                    if not np.array_equal(a, pop.samples[nm]):
                        raise Violation('C16:smc-json-populations', 'population %s parameter %s read back as %r, stored %r; %s' % (key, nm, a.tolist(), pop.samples[nm].tolist(), ctx))
            top = {nm: np.array(data['samples'][nm], dtype=float) for nm in names}
        elif case['fmt'] == 'pkl':
            back = pickle.load(open(fn, 'rb'))
            if len(back.populations) != case['npop']:
                raise Violation('C16:smc-pickle-populations', 'pickle holds %d populations; %s' % (len(back.populations), ctx))
            for bp, pop in zip(back.populations, pops):
                for nm in names:
                    if not np.array_equal(np.asarray(bp.samples[nm]), pop.samples[nm]) or not np.array_equal(np.asarray(bp.weights), pop.weights):
                        raise Violation('C16:smc-pickle-populations', 'a population changed through pickle; %s' % ctx)
            top = {nm: np.asarray(back.samples[nm]) for nm in names}
        else:
            rows = list(csv.reader(open(fn, newline='')))
            top = {nm: np.array([float(r[i]) for r in rows[1:]], dtype=float) for i, nm in enumerate(rows[0])}
        for nm in names:
            if nm not in top or not np.array_equal(top[nm], before[nm]):
                raise Violation('C16:save-roundtrip', 'SmcSample saved as %s: parameter %s read back differently; %s' % (case['fmt'], nm, ctx))
            if not isinstance(s.samples[nm], np.ndarray) or not np.array_equal(s.samples[nm], before[nm]):
                raise Violation('C16:save-changes-object', 'SmcSample.save(%s) changed the in-memory samples; %s' % (case['fmt'], ctx))
            for pop in pops:
                if not isinstance(pop.samples[nm], np.ndarray):
                    raise Violation('C16:save-changes-object', 'SmcSample.save(%s) turned the samples of a population into %s; %s' % (case['fmt'], type(pop.samples[nm]).__name__, ctx))
    finally:
        shutil.rmtree(tmp, ignore_errors=True)
    return CaseResult(['format=' + case['fmt'], 'populations=%d' % min(case['npop'], 3)], True if (case['npop'] >= 2 and len(names) >= 2) else None)


# ------------------------------------------------------------------ diagnostics

def strat_diag(tier):
    return st.fixed_dictionaries({
        'M': st.integers(1, 6), 'N': st.integers(4, 200 if tier == 'thorough' else 120), 'phi': st.sampled_from([0.0, 0.3, 0.7, 0.95, -0.5]),
        'seed': st.integers(0, 10 ** 6), 'shift': st.sampled_from([0.0, 0.5, 3.0]),
        # scales over many orders of magnitude (a = +-2^k, k in -60..60, or generic); the shift is b0 * |a| so that it never
        # swamps the chain in floating point
        'a': st.one_of(st.tuples(st.sampled_from([-1.0, 1.0]), st.integers(-60, 60)).map(lambda t: t[0] * 2.0 ** t[1]),
                       st.floats(0.01, 100.0), st.floats(-100.0, -0.01), st.floats(1e-9, 1e-3), st.floats(1e3, 1e9)),
        'b': st.floats(-10.0, 10.0, allow_nan=False), 'perm_seed': st.integers(0, 10 ** 6),
        # chains far from the origin relative to their spread (a parameter near 3e6 with unit spread): the rounding of the
        # shifted data itself is ~1e-16 * shift, the tolerance below accounts for it
        'far': st.sampled_from([0.0, 0.0, 1e5, -3e6]),
    })


def ref_ess(ch):
    M, N = ch.shape
    means = ch.mean(axis=1)
    W = np.mean([np.sum((ch[c] - means[c]) ** 2) / (N - 1) for c in range(M)])
    Bv = 0.0 if M == 1 else N * np.sum((means - means.mean()) ** 2) / (M - 1)
    vp = ((N - 1.0) * W + Bv) / N
    s = 0.0
    border = False
    for lag in range(1, N):
        ac = np.mean([np.sum((ch[c, :N - lag] - means[c]) * (ch[c, lag:] - means[c])) / (N - lag) for c in range(M)])
        rho = 1.0 - (W - ac) / vp
        if abs(rho) < 1e-9:
            border = True
        if rho >= 0:
            s += rho
        else:
            break
    return M * N / (1.0 + 2.0 * s), border


def ref_rhat(ch):
    M, N = ch.shape
    n = N // 2
    parts = []
    for c in range(M):
        parts.append(ch[c, :n])
        parts.append(ch[c, n:2 * n])
    sp = np.array(parts)
    means = sp.mean(axis=1)
    W = np.mean([np.sum((sp[i] - means[i]) ** 2) / (n - 1) for i in range(len(sp))])
    Bv = n * np.sum((means - means.mean()) ** 2) / (len(sp) - 1)
    return math.sqrt((((n - 1.0) * W + Bv) / n) / W)


def run_diag(case):
    from elfi.methods.mcmc import eff_sample_size, gelman_rubin_statistic
    M, N = case['M'], case['N']
    rs = np.random.RandomState(case['seed'])
    ch = np.zeros((M, N))
    for c in range(M):
        x = rs.randn()
        for t in range(N):
            x = case['phi'] * x + rs.randn()
            ch[c, t] = x
        ch[c] += case['shift'] * c
    ctx = 'M=%d N=%d phi=%r shift=%r seed=%d a=%r b=%r' % (M, N, case['phi'], case['shift'], case['seed'], case['a'], case['b'])
    with must_not_raise(P, 'diagnostics; ' + ctx):
        ess = float(eff_sample_size(ch.copy()))
        rhat = float(gelman_rubin_statistic(ch.copy()))
    e_ref, border = ref_ess(ch)
    r_ref = ref_rhat(ch)
    if not border and not abs(ess - e_ref) <= 1e-8 * abs(e_ref):
        raise Violation('C16:ess-formula', 'eff_sample_size = %r, textbook formula (unbiased autocovariance, truncation at the first negative rho) = %r; %s' % (ess, e_ref, ctx))
    if not abs(rhat - r_ref) <= 1e-10 * abs(r_ref):
        raise Violation('C16:rhat-formula', 'gelman_rubin_statistic = %r, split R-hat formula = %r; %s' % (rhat, r_ref, ctx))
    labels = ['M=%d' % min(M, 3)]
    if border:
        labels.append('borderline-truncation')
    # affine map
    btot = case['b'] + case.get('far', 0.0)
    y = case['a'] * ch + btot * abs(case['a'])
    e2 = float(eff_sample_size(y))
    r2 = float(gelman_rubin_statistic(y))
    _, border2 = ref_ess(y)
    atol = 1e-6 + 1e-13 * abs(btot)
    if case.get('far'):
        labels.append('far-from-origin')
    if not (border or border2) and not abs(e2 - ess) <= atol * abs(ess):
        raise Violation('C16:ess-not-affine-invariant', 'ESS %r becomes %r under x -> %r x + %r |a|; %s' % (ess, e2, case['a'], btot, ctx))
    if not abs(r2 - rhat) <= atol * abs(rhat):
        raise Violation('C16:rhat-not-affine-invariant', 'R-hat %r becomes %r under x -> %r x + %r |a|; %s' % (rhat, r2, case['a'], btot, ctx))
    # chain permutation
    perm = np.random.RandomState(case['perm_seed']).permutation(M)
    e3 = float(eff_sample_size(ch[perm]))
    r3 = float(gelman_rubin_statistic(ch[perm]))
    if not border and not abs(e3 - ess) <= 1e-8 * abs(ess):
        raise Violation('C16:ess-chain-order', 'ESS %r becomes %r when the chains are reordered by %r; %s' % (ess, e3, perm.tolist(), ctx))
    if not abs(r3 - rhat) <= 1e-10 * abs(rhat):
        raise Violation('C16:rhat-chain-order', 'R-hat %r becomes %r when the chains are reordered by %r; %s' % (rhat, r3, perm.tolist(), ctx))
    return CaseResult(labels, True if M >= 2 else None)


CHECK = Check(
    P, 'exploration',
    rule=('sample: 1-4 parameter names in arbitrary (non-sorted) order, the outputs dict keyed in parameter or shuffled order, an optional extra output, whole-number columns also as int64 arrays, 1-60 samples, weights none/positive, '
          'finite doubles incl. -0.0, 1e-300, 5e-324, |x| up to 1e150, saved to any sequence of pickle/json/csv and read back with the '
          'standard library; bolfi: chains (1-5 x 2-40 x 1-4) whose entries encode (chain, iteration, parameter) with every warm-up '
          'length; smc-bsl-samples: BslSample burn-in removal and SmcSample with 1-4 populations saved as json/pickle/csv; diagnostics: 1-6 AR(1) chains of length 4-120 (thorough 200) vs naive reference formulas, affine maps a x + b with '
          'a = +-2^k (k in -60..60) or generic over 1e-9..1e9 and b up to 3e6 |a| (chains far from the origin), chain permutations. Non-trivial: >= 2 parameters in non-alphabetical order; >= 2 chains with warm-up > 0; '
          '>= 2 chains (diagnostics).'),
    parts=[Part('sample', run_sample, strategy=strat_sample, examples={'quick': 500, 'thorough': 32000}),
           Part('bolfi-sample', run_bolfi, strategy=strat_bolfi, examples={'quick': 300, 'thorough': 16000}),
           Part('smc-bsl-samples', run_derived, strategy=strat_derived, examples={'quick': 300, 'thorough': 16000}),
           Part('diagnostics', run_diag, strategy=strat_diag, examples={'quick': 300, 'thorough': 16000})],
    assumptions=['multivariate parameter nodes are not generated (unsupported for CSV by design)',
                 'cases whose ESS truncation decision has |rho| < 1e-9 are borderline and skipped for the ESS comparisons'],
    design_ref='DESIGN.md section 4, C16',
    technique='Hypothesis-generated result objects; direct numpy/fsum and exact-rational quantile oracles, save/read-back '
              'round-trips, naive O(n^2) ESS / split R-hat references, affine and permutation metamorphic relations',
    level_text='Exploration: column order, means, interval ends (exact-rational predicate), warm-up removal layout, bit-exact '
               'round trips through three file formats read back with the standard library, unchanged in-memory object after '
               'saving, diagnostics against naive formulas and under affine maps / chain permutations.',
    level_note='Trusts the standard-library readers and the naive reference formulas in this module.')
