"""C07 - SMC-ABC populations satisfy thresholds, prior support and importance weights.

Oracle: prior densities computed directly with scipy from the model description, the mixture
density / weighted variance / weighted quantile predicate recomputed from the previous
population by the reference formulas, batch accounting from the simulator log.
"""

from functools import partial

import math

import numpy as np
import scipy.stats as ss
from hypothesis import strategies as st

from .. import models
from ..core import CaseResult, Part, Violation, must_not_raise, open_signatures, time_limit
from ..refmodels import weighted_quantile_ok
from ..runner import Check

P = 'C07'
PRIORS = ['uniform', 'normal', 'child-norm', 'child-unif', 'child-scale', 'custom-unif', 'child-custom-unif']


def strat(tier):
    return st.fixed_dictionaries({
        'pnames': st.lists(st.sampled_from(models.PNAMES), min_size=1, max_size=3, unique=True),
        'priors': st.lists(st.sampled_from(PRIORS), min_size=3, max_size=3),
        'width': st.integers(1, 2),
        'n': st.integers(2, 25 if tier == 'thorough' else 16), 'bs': st.integers(1, 15),
        'obj': st.one_of(st.tuples(st.just('thresholds'), st.lists(st.integers(20, 75), min_size=1, max_size=4)),
                         st.tuples(st.just('quantiles'), st.lists(st.sampled_from([0.3, 0.5, 0.8, 1.0, 0.25, 0.6]), min_size=1, max_size=4))),
        'cont': st.one_of(st.none(), st.none(), st.lists(st.integers(15, 60), min_size=1, max_size=2)),
        'seed': st.integers(0, 2 ** 31 - 1),
        'big_n': st.just(1),
        # location of the first parameter's prior: a parameter whose mean is huge relative to its spread (|mean| / sd ~ 1e5)
        'shift': st.sampled_from([0.0, 0.0, 0.0, 1e5, 1e5, 1e9]),
        # the threshold list in decreasing order (usual) or as drawn (any list is a valid schedule: round r uses thresholds[r])
        'ths_sorted': st.sampled_from([True, True, False]),
        # a rounding simulator: integer-valued discrepancies with many ties, thresholds that can be exactly 0 (exact matching)
        'simkind': st.sampled_from(['float', 'float', 'coarse']),
        'zero_last': st.booleans(),
    })


def strat_large(tier):
    """Populations larger than 256 particles (block boundaries in vectorised code), few rounds."""
    return st.fixed_dictionaries({
        'pnames': st.lists(st.sampled_from(models.PNAMES), min_size=1, max_size=2, unique=True),
        'priors': st.lists(st.sampled_from(PRIORS), min_size=3, max_size=3),
        'width': st.just(1), 'n': st.integers(2, 5), 'bs': st.sampled_from([64, 100]),
        'obj': st.one_of(st.tuples(st.just('thresholds'), st.lists(st.integers(40, 75), min_size=2, max_size=2)),
                         st.tuples(st.just('quantiles'), st.lists(st.sampled_from([0.5, 0.8]), min_size=2, max_size=2))),
        'cont': st.none(), 'seed': st.integers(0, 2 ** 31 - 1), 'big_n': st.just(0),
    })


_CU = None


def _custom_unif():
    """A user-defined prior in the style of elfi's MA2 example: an elfi.Distribution subclass with rvs and pdf only (the log
    density is the inherited default), bounded support."""
    global _CU
    if _CU is None:
        import elfi

        class CustomUnif(elfi.Distribution):
            def rvs(loc, scale, size=1, random_state=None):
                return ss.uniform.rvs(loc, scale, size=size, random_state=random_state)

            def pdf(x, loc, scale):
                return ss.uniform.pdf(x, loc, scale)
        _CU = CustomUnif
    return _CU


def _kinds(case):
    out = []
    for i, pn in enumerate(case['pnames']):
        k = case['priors'][i]
        if k == 'child-custom-unif' and i == 0:
            k = 'custom-unif'
        if k.startswith('child') and i == 0:
            k = 'normal'
        if k == 'child-scale' and out[-1] != 'uniform':
            k = 'child-norm'          # a scale argument needs a positive-support parent
        out.append(k)
    return out


def build(case):
    import elfi
    m = elfi.ElfiModel(name='c07model')
    ps = []
    for pi, (pn, k) in enumerate(zip(case['pnames'], _kinds(case))):
        L = float(case.get('shift', 0.0)) if pi == 0 else 0.0
        if k == 'uniform':
            p = elfi.Prior('uniform', L, 1, model=m, name=pn)
        elif k == 'normal':
            p = elfi.Prior('norm', L, 2, model=m, name=pn)
        elif k == 'custom-unif' and pi == 0:
            p = elfi.Prior(_custom_unif(), L, 1, model=m, name=pn)
        elif k == 'child-norm':
            p = elfi.Prior('norm', ps[-1], 0.5, model=m, name=pn)
        elif k == 'child-scale':
            p = elfi.Prior('norm', 0, ps[-1], model=m, name=pn)        # the bounded parent is the child's scale
        elif k == 'custom-unif':
            p = elfi.Prior(_custom_unif(), 0, 1, model=m, name=pn)
        elif k == 'child-custom-unif':
            p = elfi.Prior(_custom_unif(), ps[-1], 1, model=m, name=pn)
        else:
            p = elfi.Prior('uniform', ps[-1], 1, model=m, name=pn)
        ps.append(p)
    w = case['width']
    S = elfi.Simulator(partial(models.sim, kind=case.get('simkind', 'float'), width=w), *ps, observed=np.zeros((1, w)) if w > 1 else np.zeros(1), model=m, name='S')
    S.uses_meta = True
    sums = [elfi.Summary(partial(models.summ, col=c), S, model=m, name='s%d' % c) for c in range(w)]
    elfi.Distance('euclidean', *sums, model=m, name='d')
    return m


def prior_logpdf(case, names, th):
    """Joint prior LOG density of the rows of th (columns in the order `names`), directly from the description;
    -inf outside the support (log densities: a legitimate particle can have a density that underflows to 0)."""
    col = {n: th[:, i] for i, n in enumerate(names)}
    tot = np.zeros(len(th))
    prev = None
    with np.errstate(all='ignore'):
        for pi, (pn, k) in enumerate(zip(case['pnames'], _kinds(case))):
            x = col[pn]
            L = float(case.get('shift', 0.0)) if pi == 0 else 0.0
            if k in ('uniform', 'custom-unif'):
                v = ss.uniform(L, 1).logpdf(x)
            elif k == 'normal':
                v = ss.norm(L, 2).logpdf(x)
            elif k == 'child-norm':
                v = ss.norm(col[prev], 0.5).logpdf(x)
            elif k == 'child-scale':
                v = np.where(col[prev] > 0, ss.norm(0, np.where(col[prev] > 0, col[prev], 1.0)).logpdf(x), -np.inf)
            else:
                v = ss.uniform(col[prev], 1).logpdf(x)
            tot = tot + v
            prev = pn
    return np.where(np.isnan(tot), -np.inf, tot)


def wvar(x, w):
    V1 = w.sum()
    V2 = (w ** 2).sum()
    xb = (w[:, None] * x).sum(0) / V1
    return (w[:, None] * (x - xb) ** 2).sum(0) / (V1 - V2 / V1)


def run_case(case):
    import elfi
    n, bs = case['n'], case['bs']
    if case['big_n'] == 0:
        n = 257 + case['seed'] % 60
        bs = max(bs, 40)
    kind, val = case['obj']
    if kind == 'quantiles':
        # with fewer than ~2 particles below the cut every round has to beat the best discrepancy seen so far and the number of
        # simulations explodes geometrically with the number of rounds (elfi then works as specified, for hours): keep n * q >= 1.5
        n = max(n, int(math.ceil(1.5 / min(val))))
    m = build(case)
    fin = None
    if kind == 'thresholds' or case['cont']:
        d = m.generate(300, ['d'], seed=(case['seed'] + 99) % (2 ** 31))['d']
        fin = np.sort(d[np.isfinite(d)])
    pick = lambda pct: float(fin[min(len(fin) - 1, int(len(fin) * pct / 100.0))])
    if kind == 'thresholds':
        ths = [pick(v) for v in val]
        if case.get('ths_sorted', True):
            ths = sorted(ths, reverse=True)          # the usual decreasing schedule; otherwise the user's list as it comes
        if case.get('simkind') == 'coarse' and case.get('zero_last') and fin is not None and (fin == 0).sum() >= 1:
            ths[-1] = 0.0                             # exact matching in the last round (at least one of the 300 pilot draws matches exactly)
        objkw = {'thresholds': ths}
    else:
        ths = None
        objkw = {'quantiles': list(val)}
    ctx = 'n=%d bs=%d objective=%r continuation=%r seed=%d priors=%r pnames=%r width=%d' % (n, bs, objkw, case['cont'], case['seed'], _kinds(case), case['pnames'], case['width'])
    models.reset()
    return _run_and_judge(case, m, n, bs, kind, val, ths, objkw, pick, ctx)


_LAST = {}


def _run_and_judge(case, m, n, bs, kind, val, ths, objkw, pick, ctx):
    import elfi
    with must_not_raise(P, 'SMC.sample; ' + ctx):
        smc = elfi.SMC(m['d'], batch_size=bs, seed=case['seed'])
        _LAST['smc'] = smc
        try:
            with time_limit(300, 'C07:run-does-not-terminate', 'SMC.sample'):
                res = smc.sample(n, bar=False, **objkw)
        except Violation as v:
            if v.signature == 'C07:run-does-not-terminate' and int(smc.state.get('n_sim', 0)) >= 20000:
                # still consuming batches at a healthy rate: a legitimately expensive schedule, not a hang - inconclusive
                return CaseResult(['time-budget-exhausted-while-progressing'], None)
            raise
        in_force = [None if t is None else float(t) for t in smc.objective['thresholds']]
        quant = None if kind == 'thresholds' else list(val)
        if case['cont']:
            lowest = min(float(p.threshold) for p in res.populations)
            cths = sorted((min(pick(v), lowest) for v in case['cont']), reverse=True)
            from . import c04
            first, first_fields = res, c04._fields(res)
            with time_limit(300, 'C07:run-does-not-terminate', 'continued SMC.sample'):
                res = smc.sample(n, bar=False, thresholds=cths)
            # the result the first call returned still describes the first call (its populations, thresholds, weights, counts)
            again = c04._fields(first)
            changed = sorted(k for k in set(first_fields) | set(again)
                             if k not in first_fields or k not in again or not np.array_equal(np.asarray(first_fields[k]), np.asarray(again[k]), equal_nan=True))
            if changed:
                raise Violation('C07:earlier-result-altered-by-continuing', 'after the continued sample() call the result object returned by the FIRST call '
                                'changed in %r (it reported %d populations, now %d); %s' % (changed[:6], len([k for k in first_fields if k.endswith(':n_sim') and k.startswith('pop')]), len(first.populations), ctx))
            in_force = in_force + [float(t) for t in cths]
            quant = None if quant is None else quant + [None] * len(cths)
            ths = None if ths is None else ths + cths
            if kind == 'quantiles':
                ths = [None] * len(val) + cths
    pops = res.populations
    rounds = len(val) + (len(case['cont']) if case['cont'] else 0)
    if len(pops) != rounds:
        raise Violation('C07:number-of-populations', '%d populations returned for %d rounds; %s' % (len(pops), rounds, ctx))
    nb = len(models.LOG)
    if res.n_sim != sum(p.n_sim for p in pops) or res.n_sim != nb * bs:
        raise Violation('C07:n_sim', 'n_sim=%r, sum over populations %r, simulator log has %d batches of %d; %s' % (res.n_sim, sum(p.n_sim for p in pops), nb, bs, ctx))
    names = res.parameter_names
    labels = ['objective=' + kind]
    if kind == 'thresholds' and any(float(t) == 0.0 for t in objkw['thresholds']):
        labels.append('threshold-exactly-0')
    prior_rejected = False
    for i, p in enumerate(pops):
        th = np.column_stack([p.outputs[k] for k in names])
        disc = np.asarray(p.discrepancies, dtype=float)
        w = np.asarray(p.weights, dtype=float)
        if th.shape[0] != n or disc.shape != (n,) or w.shape != (n,):
            raise Violation('C07:population-size', 'population %d has %r particles / %r discrepancies / %r weights, n_samples=%d; %s' % (i, th.shape[0], disc.shape, w.shape, n, ctx))
        lpd = prior_logpdf(case, names, th)
        with np.errstate(all='ignore'):
            pd = np.exp(lpd)
        if not np.all(np.isfinite(lpd)):
            bad = th[~np.isfinite(lpd)][0]
            raise Violation('C07:particle-outside-prior-support', 'population %d contains the particle %r with prior density 0; %s' % (i, bad.tolist(), ctx))
        # threshold in force
        user_t = None if ths is None else ths[i]
        if user_t is not None:
            t_in_force = user_t
        elif i == 0:
            t_in_force = None           # first quantile round is a rejection quantile objective (C01)
        else:
            t_in_force = in_force[i]        # read from sampler.objective['thresholds'] right after the call that ran the round
            prev = pops[i - 1]
            ok, why = weighted_quantile_ok(np.asarray(prev.discrepancies, dtype=float), np.asarray(prev.weights, dtype=float), quant[i], t_in_force)
            if not ok:
                raise Violation('C07:quantile-threshold', 'round %d: threshold %r is not the %r weighted quantile of the previous population\'s discrepancies (%s); %s'
                                % (i, t_in_force, quant[i], why, ctx))
        if t_in_force is not None and not np.all(disc <= t_in_force):
            raise Violation('C07:above-threshold', 'population %d has discrepancies %r above the threshold in force %r; %s' % (i, disc[disc > t_in_force].tolist(), t_in_force, ctx))
        if float(p.threshold) != disc.max():
            raise Violation('C07:population-threshold', 'population %d reports threshold %r, largest accepted discrepancy %r; %s' % (i, p.threshold, disc.max(), ctx))
        # weights
        if i == 0:
            if not np.array_equal(w, np.ones(n)):
                raise Violation('C07:first-weights', 'first-population weights are %r, expected all 1; %s' % (w[:5].tolist(), ctx))
        else:
            prev = pops[i - 1]
            thp = np.column_stack([prev.outputs[k] for k in names])
            wp = np.asarray(prev.weights, dtype=float)
            cov = 2 * np.diag(wvar(thp, wp))
            if not np.all(np.isfinite(cov)) or np.any(np.diag(cov) <= 0):
                labels.append('degenerate-covariance-fallback')
                continue
            # a parameter located far from 0 relative to its spread: x - mean loses eps * |mean| / sd of relative accuracy
            with np.errstate(all='ignore'):
                kappa = float(np.max(np.abs(np.average(thp, axis=0, weights=wp)) / np.sqrt(np.diag(cov) / 2)))
            kappa = kappa if np.isfinite(kappa) else 0.0
            rt_cov = 1e-9 + 16 * 2.3e-16 * kappa
            rt_w = 1e-8 + 64 * 2.3e-16 * kappa
            if kappa > 1e7:
                labels.append('location/spread>1e7')
            if not np.allclose(np.asarray(prev.cov), cov, rtol=rt_cov, atol=0):
                raise Violation('C07:population-covariance', 'population %d reports covariance %r, twice the weighted sample variance is %r; %s'
                                % (i - 1, np.asarray(prev.cov).tolist(), cov.tolist(), ctx))
            wn = wp / wp.sum()
            q = np.zeros(n)
            sd_ = np.sqrt(np.diag(cov))
            for wj, mj in zip(wn, thp):
                # the covariance is diagonal by definition (twice the weighted variance per parameter): the component density is the
                # product of univariate normals (no matrix test that could refuse variances of very different magnitude)
                q += wj * np.prod(ss.norm.pdf(np.reshape(th, (n, -1)), loc=np.reshape(mj, -1), scale=sd_), axis=1)
            # densities that underflow in floating point - to 0 or into the subnormal range, where no relative accuracy is left -
            # are not compared
            with np.errstate(all='ignore'):
                ok = (pd > 1e-290) & (q > 1e-290) & (pd / np.where(q > 0, q, 1.0) > 1e-290)
            if not ok.all():
                labels.append('underflowing-density-skipped')
            with np.errstate(all='ignore'):
                wref = np.where(ok, pd / np.where(q > 0, q, 1.0), w)
            if not np.allclose(w[ok], wref[ok], rtol=rt_w, atol=0):
                k = int(np.flatnonzero(ok)[np.argmax(np.abs(w[ok] - wref[ok]) / wref[ok])])
                raise Violation('C07:importance-weights', 'population %d particle %d has weight %r, prior density / mixture density of the previous population is %r (ratio %.6g); %s'
                                % (i, k, w[k], wref[k], w[k] / wref[k], ctx))
    bounded = any(k in ('uniform', 'child-unif', 'child-scale', 'custom-unif', 'child-custom-unif') for k in _kinds(case))
    hier = any(k.startswith('child') for k in _kinds(case))
    if bounded:
        labels.append('bounded-prior')
    if hier:
        labels.append('hierarchical-prior')
    if case['cont']:
        labels.append('continued')
    if n > 256:
        labels.append('n>256')
    labels.append('rounds=%d' % min(rounds, 4))
    return CaseResult(sorted(set(labels)), True if (rounds >= 2 and (bounded or hier)) else None)


CHECK = Check(
    P, 'exploration',
    rule=('Hypothesis-generated models with 1-3 parameters whose priors are uniform (bounded), normal (unbounded), normal-with-parent-location, '
          'uniform-with-parent-location, normal-with-parent-SCALE (hierarchical, bounded) or a user-defined elfi.Distribution with rvs+pdf only (bounded, optionally with parent location), scalar or vector simulator output; n_samples 2-16 (thorough 25; part smc-large: '
          '257-316 particles), batch_size 1-15, 1-4 rounds given as pilot-percentile thresholds (decreasing or in any order; with the rounding simulator integer-valued incl. exactly 0) or as quantile lists, an '
          'optional continued sample() call on the same sampler with 1-2 further thresholds. Non-trivial = >= 2 rounds with a bounded or '
          'hierarchical prior.'),
    parts=[Part('smc', run_case, strategy=strat, examples={'quick': 160, 'thorough': 4800}, shards={'quick': 8, 'thorough': 16}),
           Part('smc-large', run_case, strategy=strat_large, examples={'quick': 32, 'thorough': 320}, shards={'quick': 8, 'thorough': 16}, shrink=False)],
    assumptions=["the threshold in force of a quantile round is read from sampler.objective['thresholds'][i] (one internal read)",
                 'when the weighted variance is not finite/positive elfi falls back to unit covariance; such rounds are labelled and '
                 'skipped for the covariance and weight comparison only'],
    design_ref='DESIGN.md section 4, C07',
    technique='Hypothesis-generated SMC configurations; reference recomputation of prior densities, mixture density, weighted variance '
              'and exact-rational quantile predicate; simulator log for n_sim',
    level_text='Exploration: every population is checked for size, threshold in force, prior support, weights (rtol 1e-8 + 64 eps location/spread) and covariance '
               '(rtol 1e-9 + 16 eps location/spread) against reference formulas evaluated on the previous population; n_sim against the simulator log.',
    level_note='Trusts scipy densities and the reference formulas in this module.')
