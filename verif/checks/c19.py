"""C19 - ROMC regions: samples lie inside, density integrates to one, weights follow.

Oracles: box coordinates recomputed in extended precision from (R, c); probe log of the line
search; prior density from scipy and indicator counts recomputed directly for the posterior.
"""

import contextlib
import io

import numpy as np
import scipy.stats as ss
from hypothesis import strategies as st

from ..core import CaseResult, Part, Violation, must_not_raise
from ..runner import Check

P = 'C19'


def rotation(d, angles, flip):
    R = np.eye(d)
    k = 0
    for i in range(d):
        for j in range(i + 1, d):
            a = angles[k % len(angles)] if angles else 0.0
            k += 1
            G = np.eye(d)
            G[i, i] = G[j, j] = np.cos(a)
            G[i, j] = -np.sin(a)
            G[j, i] = np.sin(a)
            R = R.dot(G)
    if flip:
        R[:, 0] = -R[:, 0]
    return R


def box_strategy():
    return st.integers(1, 4).flatmap(lambda d: st.fixed_dictionaries({
        'd': st.just(d),
        'angles': st.lists(st.floats(-3.1, 3.1, allow_nan=False), min_size=0, max_size=6),
        'flip': st.booleans(),
        'center': st.lists(st.one_of(st.floats(-1e3, 1e3, allow_nan=False), st.integers(-3, 3).map(float)), min_size=d, max_size=d),
        'limits': st.lists(st.tuples(st.one_of(st.just(0.0), st.floats(0, 1e-3), st.floats(0, 5.0), st.floats(0, 300.0)),
                                     st.one_of(st.just(0.0), st.floats(0, 1e-3), st.floats(0, 5.0), st.floats(0, 300.0))),
                           min_size=d, max_size=d),
    }))


def make_box(b):
    from elfi.methods.inference.romc import NDimBoundingBox
    d = b['d']
    R = rotation(d, b['angles'], b['flip'])
    c = np.array(b['center'], dtype=float)
    lim = np.array([[-abs(l), abs(r)] for l, r in b['limits']], dtype=float)
    with contextlib.redirect_stdout(io.StringIO()):
        box = NDimBoundingBox(R.copy(), c.copy(), lim.copy())
    return box, R, c, lim


def ref_limits(lim):
    out = lim.astype(float).copy()
    widened = []
    for i in range(len(out)):
        width = out[i, 1] - out[i, 0]
        if width <= max(1e-9 * max(abs(out[i, 0]), abs(out[i, 1])), 1e-3):
            out[i, 0] -= 5e-4
            out[i, 1] += 5e-4
            widened.append(i)
    return out, widened


def coords(R, c, x):
    Rl = R.astype(np.longdouble)
    return Rl.T.dot(np.asarray(x, dtype=np.longdouble) - c.astype(np.longdouble))


def strat_box(tier):
    return st.fixed_dictionaries({'box': box_strategy(), 'n2': st.integers(1, 50), 'seed': st.integers(0, 2 ** 31 - 1),
                                  'seed_kind': st.sampled_from(['int', 'none', 'rs']), 'qseed': st.integers(0, 10 ** 6)})


def run_box(case):
    b = case['box']
    d = b['d']
    ctx = 'box=%r' % (b,)
    with must_not_raise(P, 'NDimBoundingBox; ' + ctx):
        box, R, c, lim = make_box(b)
    rl, widened = ref_limits(lim)
    if not np.allclose(box.limits, rl, rtol=0, atol=1e-15):
        raise Violation('C19:secure-limits', 'limits %r became %r, expected exactly the degenerate dimensions %r widened by 5e-4 per side: %r; %s'
                        % (lim.tolist(), np.asarray(box.limits).tolist(), widened, rl.tolist(), ctx))
    widths = rl[:, 1] - rl[:, 0]
    vol = float(np.prod(widths))
    scale = float(np.abs(c).max() + np.abs(rl).max() + 1.0)
    band = 1e-9 * scale
    seed = {'int': case['seed'], 'none': None, 'rs': np.random.RandomState(case['seed'])}[case['seed_kind']]
    with must_not_raise(P, 'sample(%d); %s' % (case['n2'], ctx)):
        pts = box.sample(case['n2'], seed=seed)
    if np.shape(pts) != (case['n2'], d):
        raise Violation('C19:sample-shape', 'sample(%d) has shape %r; %s' % (case['n2'], np.shape(pts), ctx))
    labels = ['d=%d' % d]
    nborder = 0
    for x in pts:
        u = coords(R, c, x)
        if np.any(u < rl[:, 0] - band) or np.any(u > rl[:, 1] + band):
            raise Violation('C19:sample-outside-region', 'sampled point %r has box coordinates %r outside the limits %r; %s'
                            % (x.tolist(), [float(v) for v in u], rl.tolist(), ctx))
        if np.any(u < rl[:, 0] + band) or np.any(u > rl[:, 1] - band):
            nborder += 1
            continue
        if not box.contains(x):
            raise Violation('C19:sample-not-contained', 'contains() is False for the sampled point %r (box coordinates %r, limits %r); %s'
                            % (x.tolist(), [float(v) for v in u], rl.tolist(), ctx))
        p = box.pdf(x)
        if not abs(p - 1.0 / vol) <= 1e-12 / vol:
            raise Violation('C19:pdf-inside', 'pdf at a sampled point is %r, 1/volume is %r; %s' % (p, 1.0 / vol, ctx))
    if nborder:
        labels.append('borderline-points')
    # query points placed by the oracle in box coordinates
    qs = np.random.RandomState(case['qseed'])
    margin = 1e-6 * scale
    for q in range(12):
        u = rl[:, 0] + qs.rand(d) * widths
        inside = True
        kind = q % 3
        if kind == 1:      # clearly outside through one face
            i = qs.randint(d)
            side = qs.randint(2)
            u[i] = rl[i, side] + (1 if side else -1) * (margin + qs.rand() * (widths[i] + 1.0))
            inside = False
        elif kind == 2:    # near a face, on the inner side
            i = qs.randint(d)
            side = qs.randint(2)
            if widths[i] <= 4 * margin:
                continue
            u[i] = rl[i, side] - (1 if side else -1) * margin * (1 + qs.rand())
        if inside and (np.any(u < rl[:, 0] + margin / 2) or np.any(u > rl[:, 1] - margin / 2)):
            continue
        x = R.dot(u) + c
        got = bool(box.contains(x))
        if got != inside:
            raise Violation('C19:contains', 'contains(%r) is %r for a point with box coordinates %r (limits %r), expected %r; %s'
                            % (x.tolist(), got, u.tolist(), rl.tolist(), inside, ctx))
        p = box.pdf(x)
        exp = (1.0 / vol) if inside else 0.0
        if not abs(p - exp) <= 1e-12 * max(exp, 1e-300):
            raise Violation('C19:pdf', 'pdf(%r) = %r, expected %r (inside=%r); %s' % (x.tolist(), p, exp, inside, ctx))
    if widened:
        labels.append('degenerate-limits-widened')
    offdiag = d >= 2 and np.abs(R - np.diag(np.diag(R))).max() > 0.1
    if offdiag:
        labels.append('rotated')
    return CaseResult(labels, True if (offdiag and np.any(c != 0)) else None)


# ------------------------------------------------------------------ line search

def strat_line(tier):
    return st.fixed_dictionaries({
        'd': st.integers(1, 3), 'seed': st.integers(0, 10 ** 6),
        'shape': st.sampled_from(['linear', 'quadratic', 'bumpy', 'plateau', 'above-at-start', 'never-crosses']),
        'boundary': st.one_of(st.floats(0.01, 20.0, allow_nan=False), st.integers(1, 12).map(float), st.integers(1, 24).map(lambda k: k / 2.0)),
        'eta': st.sampled_from([1.0, 0.5, 2.0, 0.1, 3.0]), 'K': st.integers(1, 12), 'rep_lim': st.sampled_from([3, 5, 10, 300, 1, 2]),
        'unit': st.booleans(),
    })


def run_line(case):
    from elfi.methods.inference.romc import line_search
    d = case['d']
    rs = np.random.RandomState(case['seed'])
    th0 = rs.randn(d) * 3
    vd = rs.randn(d)
    vd = vd / np.linalg.norm(vd)
    if not case['unit']:
        vd = vd * rs.uniform(0.3, 3.0)
    bnd, shape = case['boundary'], case['shape']
    eps = 1.0

    def g(t):
        if shape == 'linear':
            return t / bnd
        if shape == 'quadratic':
            return (t / bnd) ** 2
        if shape == 'bumpy':
            return t / bnd + 0.3 * np.sin(7 * t) * (t < bnd * 0.6)
        if shape == 'plateau':
            return 0.5 if t < bnd else 2.0
        if shape == 'above-at-start':
            return 2.0 + t
        return 0.2
    probes = []

    def f(th):
        t = float(np.dot(th - th0, vd) / np.dot(vd, vd))
        val = float(g(t))
        probes.append((t, val))
        return val
    ctx = 'shape=%s boundary=%r eta=%r K=%d rep_lim=%d d=%d seed=%d' % (shape, bnd, case['eta'], case['K'], case['rep_lim'], d, case['seed'])
    with must_not_raise(P, 'line_search; ' + ctx):
        off = line_search(f, th0.copy(), vd.copy(), eps, K=case['K'], eta=case['eta'], rep_lim=case['rep_lim'])
    off = float(off)
    if not off > 0:
        raise Violation('C19:line-search-nonpositive', 'line_search returned %r; %s' % (off, ctx))
    tol = 1e-9 * (1 + abs(off))
    start_above = probes[0][1] >= eps
    no_accepted_step = not any(t > tol and v < eps for t, v in probes)
    if start_above or no_accepted_step:
        # documented fallback: no step could be accepted, the final resolution eta is returned
        return CaseResult(['minimal-eta-fallback'], None)
    # probes within rounding distance of the returned offset are borderline (the nominal offset and the accumulated
    # position differ by rounding): judged are the probed steps clearly at or before it
    bad = [(t, v) for t, v in probes if -tol <= t <= off - tol and v >= eps]
    if bad:
        raise Violation('C19:line-search-includes-step-above-threshold',
                        'returned offset %r but the probed step(s) %r at or before it had objective >= threshold; %s' % (off, bad[:3], ctx))
    # probes within rounding distance of the returned offset: if the objective was probed there it must have been below the
    # threshold at least once (a mix of both answers is a rounding artefact of the accumulated position; no probe at all is
    # a step back that was never probed - both are fine); only-above means the result includes a rejected step
    near = [(t, v) for t, v in probes if abs(t - off) <= tol]
    if near and not any(v < eps for _, v in near):
        raise Violation('C19:line-search-offset-is-a-rejected-step',
                        'returned offset %r was probed only with objective >= threshold (%r); %s' % (off, near[:3], ctx))
    crossed = any(v >= eps for _, v in probes)
    labels = ['shape=' + shape]
    steps_to_boundary = bnd / case['eta']
    if crossed and abs(steps_to_boundary - case['rep_lim']) <= 1.0:
        labels.append('crossing-at-repetition-limit')
    if not crossed:
        labels.append('limit-reached-without-crossing')
    return CaseResult(labels, True if crossed else None)


# ------------------------------------------------------------------ region constructor

def strat_region(tier):
    return st.fixed_dictionaries({'d': st.integers(1, 3), 'seed': st.integers(0, 10 ** 6), 'eps': st.sampled_from([0.5, 1.0, 4.0]),
                                  'eta': st.sampled_from([1.0, 0.3]), 'K': st.integers(2, 10), 'rep_lim': st.sampled_from([5, 50, 300]),
                                  'hess': st.sampled_from(['exact', 'identity', 'singular'])})


def run_region(case):
    from elfi.methods.inference.romc import RegionConstructor, RomcOptimisationResult
    d = case['d']
    rs = np.random.RandomState(case['seed'])
    q, _ = np.linalg.qr(rs.randn(d, d))
    A = (q * np.exp(rs.uniform(-1.5, 1.5, size=d))).dot(q.T)
    A = (A + A.T) / 2
    c = rs.randn(d) * 5

    def f(th):
        return float((th - c).dot(A).dot(th - c))
    H = {'exact': 2 * A, 'identity': np.eye(d), 'singular': np.zeros((d, d))}[case['hess']]
    ctx = 'case=%r' % (case,)
    with must_not_raise(P, 'RegionConstructor.build; ' + ctx):
        with contextlib.redirect_stdout(io.StringIO()):
            res = RomcOptimisationResult(c.copy(), 0.0, H.copy())
            boxes = RegionConstructor(res, f, d, eps_region=case['eps'], K=case['K'], eta=case['eta'], rep_lim=case['rep_lim']).build()
    if len(boxes) < 1:
        raise Violation('C19:region-none', 'no region built; ' + ctx)
    box = boxes[0]
    if not box.contains(c.copy()):
        raise Violation('C19:region-excludes-centre', 'the constructed region does not contain its centre %r; %s' % (c.tolist(), ctx))
    # every face lies where the objective along that axis is still below the threshold (probed by the search itself) -> check end points
    R = box.rotation
    if np.abs(R.T.dot(R) - np.eye(d)).max() < 1e-8:
        for i in range(d):
            for side in (0, 1):
                x = c + R[:, i] * box.limits[i, side] * 0.999
                if f(x) >= case['eps'] * (1 + 1e-9) and abs(box.limits[i, side]) > 1e-3:
                    raise Violation('C19:region-face-beyond-threshold', 'face %d/%d at offset %r: objective %r >= eps %r just inside the face; %s'
                                    % (i, side, box.limits[i, side], f(x), case['eps'], ctx))
    return CaseResult(['d=%d' % d, 'hess=' + case['hess']], True if d >= 2 else None)


# ------------------------------------------------------------------ posterior

def strat_post(tier):
    return st.integers(1, 3).flatmap(lambda d: st.fixed_dictionaries({
        'd': st.just(d), 'seed': st.integers(0, 10 ** 6), 'nreg': st.integers(1, 6),
        'prior': st.sampled_from(['uniform', 'normal', 'mixed']), 'surrogate_used': st.booleans(),
        'cutoffs': st.lists(st.sampled_from([0.3, 0.7, 1.3, 2.9, 6.1, 0.0]), min_size=1, max_size=3),     # 0.0: nothing is accepted
        'n2': st.integers(1, 6), 'npts': st.integers(1, 8), 'sample_seed': st.integers(0, 10 ** 5),
        # the bounds handed to the posterior (only the normalisation grid uses them): wide, or tighter than the regions
        'lims': st.sampled_from([4.0, 4.0, 1.5, 0.8]),
        # overall magnitude of the distances and cut-offs (tightly concentrated problems: everything around 1e-9)
        'dscale': st.sampled_from([1.0, 1.0, 1e-9]),
    }))


def run_post(case):
    import elfi
    from elfi.methods.inference.romc import NDimBoundingBox
    from elfi.methods.posteriors import RomcPosterior
    from elfi.model.extensions import ModelPrior
    d = case['d']
    rs = np.random.RandomState(case['seed'])
    m = elfi.ElfiModel(name='c19model')
    dists = []
    names = ['p%d' % i for i in range(d)]
    for i, nm in enumerate(names):
        kind = case['prior'] if case['prior'] != 'mixed' else ('uniform' if i % 2 == 0 else 'normal')
        if kind == 'uniform':
            elfi.Prior('uniform', -4.0, 8.0, model=m, name=nm)
            dists.append(ss.uniform(-4.0, 8.0))
        else:
            elfi.Prior('norm', 0.5, 2.0, model=m, name=nm)
            dists.append(ss.norm(0.5, 2.0))
    prior = ModelPrior(m)

    def prior_pdf(x):
        return float(np.prod([dists[i].pdf(x[i]) for i in range(d)]))
    regions, funcs, params = [], [], []
    sc = float(case.get('dscale', 1.0))
    for r in range(case['nreg']):
        R = rotation(d, list(rs.uniform(-3, 3, size=3)), bool(rs.randint(2)))
        c = rs.uniform(-3, 3, size=d)
        lim = np.column_stack([-rs.uniform(0.2, 2.0, size=d), rs.uniform(0.2, 2.0, size=d)])
        with contextlib.redirect_stdout(io.StringIO()):
            regions.append(NDimBoundingBox(R, c, lim))
        q, _ = np.linalg.qr(rs.randn(d, d))
        A = (q * np.exp(rs.uniform(-1, 1, size=d))).dot(q.T)
        mi = c + rs.randn(d) * 0.3
        off = rs.uniform(0, 0.2)
        params.append((A, mi, off, R, c, lim))
        funcs.append((lambda A, mi, off: (lambda th: sc * (float((th - mi).dot(A).dot(th - mi)) + off)))(A, mi, off))
    ctx = 'case=%r' % (case,)
    with must_not_raise(P, 'RomcPosterior; ' + ctx):
        # all fourteen arguments positionally, exactly as the one caller inside elfi (ROMC._define_posterior) hands them over:
        # (..., prior, left_lim, right_lim, eps_filter, eps_region, eps_cutoff, parallelize)
        post = RomcPosterior(regions, funcs, funcs, funcs, funcs, list(range(case['nreg'])), case['surrogate_used'], prior,
                             np.full(d, -case.get('lims', 4.0)), np.full(d, case.get('lims', 4.0)), 10.0 * sc, 5.0 * sc,
                             case['cutoffs'][0] * sc, False)
    pts = np.vstack([rs.uniform(-4.5, 4.5, size=(case['npts'], d))] + [params[r][4][None, :] + rs.randn(2, d) * 0.5 for r in range(case['nreg'])])

    def inside(r, x):
        A, mi, off, R, c, lim = params[r]
        u = coords(R, c, x)
        band = 1e-9 * 10
        if np.any(np.abs(u - lim[:, 0]) < band) or np.any(np.abs(u - lim[:, 1]) < band):
            return None
        return bool(np.all(u >= lim[:, 0]) and np.all(u <= lim[:, 1]))
    labels = ['surrogate_used' if case['surrogate_used'] else 'actual-objectives', 'prior=' + case['prior']]
    if case.get('lims', 4.0) < 4.0:
        labels.append('bounds-tighter-than-regions')
    nz = 0
    for ci, eps in enumerate(case['cutoffs']):
        eps = eps * sc
        if ci > 0:
            post.reset_eps_cutoff(eps)
            labels.append('cutoff-changed')
        with must_not_raise(P, 'pdf_unnorm_batched; ' + ctx):
            got = post.pdf_unnorm_batched(pts.copy())
        for k, x in enumerate(pts):
            cnt = 0
            skip = False
            for r in range(case['nreg']):
                dist = funcs[r](x)
                if abs(dist - eps) < 1e-9 * sc:
                    skip = True
                ok = dist <= eps
                if case['surrogate_used']:
                    ins = inside(r, x)
                    if ins is None:
                        skip = True
                    ok = ok and bool(ins)
                cnt += int(ok)
            if skip:
                continue
            exp = prior_pdf(x) * cnt
            if cnt:
                nz += 1
            if not abs(got[k] - exp) <= 1e-10 * max(exp, 1e-300):
                raise Violation('C19:posterior-unnormalised-density',
                                'cut-off %r (evaluation %d of the cut-off sequence %r): pdf_unnorm at %r is %r, prior density x number of accepted problems (%d) is %r; %s'
                                % (eps, ci + 1, case['cutoffs'], x.tolist(), float(got[k]), cnt, exp, ctx))
        # sample weights under this cut-off
        with must_not_raise(P, 'RomcPosterior.sample; ' + ctx):
            with contextlib.redirect_stdout(io.StringIO()):
                theta, w, distances = post.sample(case['n2'], seed=case['sample_seed'] + ci)
        if np.shape(theta) != (case['nreg'], case['n2'], d) or np.shape(w) != (case['nreg'], case['n2']):
            raise Violation('C19:posterior-sample-shape', 'theta %r w %r; %s' % (np.shape(theta), np.shape(w), ctx))
        for r in range(case['nreg']):
            vol = float(np.prod(params[r][5][:, 1] - params[r][5][:, 0]))
            for j in range(case['n2']):
                x = theta[r, j]
                ins = inside(r, x)
                dist = funcs[r](x)
                if ins is None or abs(dist - eps) < 1e-9 * sc:
                    continue
                if not ins:
                    raise Violation('C19:posterior-sample-outside-region', 'sample %r of region %d lies outside it; %s' % (x.tolist(), r, ctx))
                exp = (1.0 if dist < eps else 0.0) * prior_pdf(x) * vol
                if not abs(w[r, j] - exp) <= 1e-10 * max(exp, 1e-300):
                    raise Violation('C19:posterior-sample-weight', 'weight of sample %r of region %d is %r, indicator x prior / region density is %r; %s'
                                    % (x.tolist(), r, float(w[r, j]), exp, ctx))
    return CaseResult(sorted(set(labels)), True if (d >= 2 and nz > 0) else None)


CHECK = Check(
    P, 'exploration',
    rule=('box: dimensions 1-4, rotations = products of Givens rotations (optionally with a reflection), centres |c| <= 1e3, limits with '
          'widths 0, < 1e-3 (widened) up to 600, n2 1-50 sampled points (seed given as int/None/RandomState) plus 12 oracle-placed query '
          'points (inside, outside, near faces); line search: 6 objective shapes along a line, boundaries incl. exact multiples of the step, '
          'eta, K, rep_lim incl. 1-10; region constructor on quadratic bowls; posterior: 1-6 regions/objectives, ModelPrior of a real '
          'model, surrogate_used on/off, a sequence of 1-3 cut-offs (incl. exactly 0: nothing accepted) on ONE posterior object, bounds wide or tighter than the regions, distances and cut-offs of magnitude 1 or 1e-9. Non-trivial: d >= 2 with a rotation whose '
          'off-diagonal exceeds 0.1 and a non-zero centre (box); the objective crossed the threshold (line); d >= 2 with a non-zero count '
          '(posterior).'),
    parts=[Part('box', run_box, strategy=strat_box, examples={'quick': 600, 'thorough': 32000}),
           Part('line-search', run_line, strategy=strat_line, examples={'quick': 800, 'thorough': 32000}),
           Part('region', run_region, strategy=strat_region, examples={'quick': 150, 'thorough': 8000}),
           Part('posterior', run_post, strategy=strat_post, examples={'quick': 150, 'thorough': 8000})],
    assumptions=['rotations are orthonormal (non-orthonormal ones that elfi can derive from non-symmetric Hessians are outside the quantifier)',
                 'points within 1e-9*scale of a face are borderline: either answer is accepted',
                 'cut-offs never coincide with a generated distance (the density uses <=, the weights <)'],
    design_ref='DESIGN.md section 4, C19',
    technique='Hypothesis-generated boxes/objectives/posteriors; oracles = extended-precision box coordinates, probe log of the '
              'line search, direct prior x indicator counts; cut-off change history',
    level_text='Exploration: sampled and oracle-placed points are checked against box coordinates recomputed in long double; the '
               'line search is judged by its own probe log; posterior densities and sample weights are recomputed from scipy prior '
               'densities and indicator counts, across changes of the cut-off on one object.',
    level_note='Trusts scipy.stats densities and the Givens construction of orthonormal rotations.')
