"""C09 - MCMC kernels implement their algorithm and never leave the target's support.

Oracle: an independently written random-walk Metropolis that replays the same RandomState stream
(bit-equal chain); for NUTS: row count, seed determinism, finiteness of the target at every
returned state, and moment tests on Gaussian / truncated-Gaussian / exponential targets.
"""

import math

import numpy as np
import scipy.stats as ss
from hypothesis import strategies as st

from ..core import CaseResult, Part, Violation, must_not_raise, time_limit
from ..runner import Check

P = 'C09'
KINDS = ['gauss', 'gauss-box', 'half', 'nan-region', 'flat-box', 'exp']


class Target(object):
    """Log-target built from a description; returns Python floats (the documented contract)."""

    def __init__(self, desc):
        self.kind = desc['kind']
        self.d = desc['d']
        rs = np.random.RandomState(desc['seed'])
        self.mu = rs.randn(self.d) * desc['mu_scale']
        q, _ = np.linalg.qr(rs.randn(self.d, self.d))
        ev = np.exp(rs.uniform(-1.0, 1.0, size=self.d))
        self.Pm = (q * ev).dot(q.T)
        self.Pm = (self.Pm + self.Pm.T) / 2
        self.lo = self.mu - desc['half_width']
        self.hi = self.mu + desc['half_width']
        self.rate = 5.0
        self.ncalls = 0
        # additive constant of the (unnormalised) log-target: a log-likelihood over many observations is uniformly huge
        self.offset = float(desc.get('offset', 0.0))

    def inside(self, x):
        k = self.kind
        if k in ('gauss-box', 'flat-box'):
            return bool(np.all(x >= self.lo) and np.all(x <= self.hi))
        if k in ('half', 'nan-half'):
            return bool(x[0] >= self.mu[0])
        if k == 'nan-region':
            return bool(x[0] > self.mu[0] - 1.0)
        if k == 'exp':
            return bool(np.all(x >= 0))
        return True

    def __call__(self, x):
        self.ncalls += 1
        x = np.asarray(x, dtype=float).reshape(-1)
        if not self.inside(x):
            return float('nan') if self.kind in ('nan-region', 'nan-half') else -float('inf')
        if self.kind == 'flat-box':
            return 0.0 + self.offset
        if self.kind == 'exp':
            return float(-self.rate * x.sum()) + self.offset
        if self.kind == 'nan-region':
            # a log-target built on log(): NaN outside its domain
            return float(-0.5 * (x - self.mu).dot(self.Pm).dot(x - self.mu) + 0.1 * math.log(x[0] - self.mu[0] + 1.0)) + self.offset
        return float(-0.5 * (x - self.mu).dot(self.Pm).dot(x - self.mu)) + self.offset

    def grad(self, x):
        x = np.asarray(x, dtype=float).reshape(-1)
        if not self.inside(x):
            return np.zeros(self.d)
        if self.kind == 'flat-box':
            return np.zeros(self.d)
        if self.kind == 'exp':
            return -self.rate * np.ones(self.d)
        g = -self.Pm.dot(x - self.mu)
        if self.kind == 'nan-region':
            g = g.copy()
            g[0] += 0.1 / (x[0] - self.mu[0] + 1.0)
        return g

    def start(self, rs, near_edge=False):
        if self.kind == 'exp':
            return rs.uniform(0.05, 0.5, size=self.d)
        x = self.mu + rs.uniform(-0.3, 0.3, size=self.d)
        if self.kind in ('half', 'nan-half'):
            x[0] = self.mu[0] + rs.uniform(0.01 if near_edge else 0.2, 0.6)
        if self.kind == 'nan-region' and near_edge:
            x[0] = self.mu[0] - 1.0 + rs.uniform(0.01, 0.2)
        return x


def target_desc():
    return st.fixed_dictionaries({
        'kind': st.sampled_from(KINDS), 'd': st.integers(1, 4), 'seed': st.integers(0, 10 ** 6),
        'mu_scale': st.sampled_from([0.0, 1.0, 5.0]), 'half_width': st.sampled_from([0.5, 1.0, 3.0]),
        'offset': st.sampled_from([0.0, 0.0, 0.0, -1e6, 3e7]),
    })


# ------------------------------------------------------------------ Metropolis: exact chain

def strat_metropolis(tier):
    return st.fixed_dictionaries({
        'target': target_desc(), 'n': st.integers(1, 80), 'warmup': st.integers(0, 20),
        'sigma': st.one_of(st.sampled_from([0.1, 0.5, 1.0, 3.0]), st.lists(st.sampled_from([0.1, 0.5, 1.0, 3.0]), min_size=4, max_size=4)),
        'seed': st.integers(0, 2 ** 32 - 1), 'near_edge': st.booleans(),
        # integer-typed start and/or proposal scales (the chain is still a float chain)
        'int_inputs': st.sampled_from(['no', 'no', 'no', 'x0', 'sigma', 'both']),
    })


def ref_metropolis(n, x0, target, sigma, warmup, seed):
    rs = np.random.RandomState(seed)
    x = np.array(x0, dtype=float)
    tc = target(x)
    out = []
    stats = {'acc': 0, 'rej': 0, 'outside': 0}
    for i in range(n + warmup):
        prop = x + sigma * rs.randn(*x.shape)
        tp = target(prop)
        u = rs.rand()
        finite = not (math.isinf(tp) or math.isnan(tp))
        if not finite:
            stats['outside'] += 1
        with np.errstate(all='ignore'):
            ok = finite and not (np.exp(tp - tc) < u)
        if ok:
            x, tc = prop, tp
            stats['acc'] += 1
        else:
            stats['rej'] += 1
        out.append(x.copy())
    return np.array(out[warmup:]), stats


def run_metropolis(case):
    from elfi.methods.mcmc import metropolis
    t = Target(case['target'])
    d = t.d
    rs = np.random.RandomState(case['target']['seed'] + 7)
    x0 = t.start(rs, case['near_edge'])
    sigma = case['sigma'] if not isinstance(case['sigma'], list) else np.array(case['sigma'][:d])
    ii = case.get('int_inputs', 'no')
    if ii in ('x0', 'both'):
        xi = np.round(x0).astype(int)
        v = t(xi)
        if not (math.isinf(v) or math.isnan(v)):
            x0 = xi
    if ii in ('sigma', 'both'):
        sigma = 1 if not isinstance(case['sigma'], list) else np.array([1, 2, 1, 3][:d])
    ctx = 'target=%r n=%d warmup=%d sigma=%r (%s) seed=%d x0=%r (%s)' % (case['target'], case['n'], case['warmup'], sigma, np.asarray(sigma).dtype,
                                                                      case['seed'], x0.tolist(), x0.dtype)
    with must_not_raise(P, 'metropolis; ' + ctx):
        with np.errstate(all='ignore'):
            got = metropolis(case['n'], x0.copy(), Target(case['target']), sigma, warmup=case['warmup'], seed=case['seed'])
            got2 = metropolis(case['n'], x0.copy(), Target(case['target']), sigma, warmup=case['warmup'], seed=case['seed'])
    ref, stats = ref_metropolis(case['n'], x0, t, sigma, case['warmup'], case['seed'])
    got = np.asarray(got)
    if got.shape != (case['n'], d):
        raise Violation('C09:metropolis-shape', 'returned %r states, requested %d in %d dimensions; %s' % (got.shape, case['n'], d, ctx))
    if not np.array_equal(got, got2):
        raise Violation('C09:metropolis-nondeterministic', 'two runs with one seed differ; %s' % ctx)
    if not np.array_equal(got, ref):
        k = int(np.flatnonzero(np.any(got != ref, axis=1))[0])
        raise Violation('C09:metropolis-not-the-chain-of-its-seed',
                        'state %d (after %d warm-up steps) is %r, the random-walk Metropolis chain of this seed has %r; %s'
                        % (k, case['warmup'], got[k].tolist(), ref[k].tolist(), ctx))
    for k, x in enumerate(got):
        v = t(x)
        if math.isinf(v) or math.isnan(v):
            raise Violation('C09:metropolis-state-outside-support', 'state %d = %r has log-target %r; %s' % (k, x.tolist(), v, ctx))
    labels = ['target=' + t.kind]
    if x0.dtype.kind == 'i' or np.asarray(sigma).dtype.kind == 'i':
        labels.append('integer-typed-inputs')
    if stats['outside']:
        labels.append('proposal-outside-support')
    mixed = stats['acc'] > 0 and stats['rej'] > 0
    support = t.kind in ('gauss-box', 'half', 'nan-region', 'flat-box', 'exp')
    return CaseResult(labels, True if (mixed and (not support or stats['outside'] > 0)) else None)


# ------------------------------------------------------------------ NUTS invariants

def strat_nuts(tier):
    return st.fixed_dictionaries({
        'target': target_desc(), 'n_iter': st.integers(2, 120), 'n_adapt': st.one_of(st.none(), st.integers(0, 40)),
        'seed': st.integers(0, 2 ** 32 - 1), 'near_edge': st.booleans(), 'max_depth': st.sampled_from([5, 3, 2]),
        # the starting point rounded to whole numbers (when that point is valid) and handed over as an integer array
        'int_start': st.sampled_from([False, False, True]),
    })


def run_nuts(case):
    from elfi.methods.mcmc import nuts
    t = Target(case['target'])
    rs = np.random.RandomState(case['target']['seed'] + 7)
    x0 = t.start(rs, case['near_edge'])
    int_start = False
    if case.get('int_start'):
        xi = np.ceil(x0) if t.kind in ('half', 'nan-half', 'exp') else np.round(x0)
        v = t(xi)
        if not (math.isinf(v) or math.isnan(v)):
            x0 = xi
            int_start = True
    ctx = 'target=%r n_iter=%d n_adapt=%r seed=%d max_depth=%d x0=%r%s' % (case['target'], case['n_iter'], case['n_adapt'], case['seed'], case['max_depth'], x0.tolist(), ' (passed as an int64 array)' if int_start else '')
    kw = dict(n_adapt=case['n_adapt'], seed=case['seed'], max_depth=case['max_depth'])

    def run(as_int=int_start):
        tt = Target(case['target'])
        with np.errstate(all='ignore'):
            return nuts(case['n_iter'], x0.astype(np.int64) if as_int else x0.copy(), tt, tt.grad, **kw)
    try:
        with time_limit(300, 'C09:nuts-hangs', 'nuts'):
            got = np.asarray(run())
    except (ValueError, SystemExit) as e:
        # documented refusals: no acceptable initial step size from this starting point
        return CaseResult(['nuts-refused-start'], None)
    except Exception as e:
        with must_not_raise(P, 'nuts; ' + ctx):
            raise
        raise
    got2 = np.asarray(run())
    if got.shape != (case['n_iter'], t.d):
        raise Violation('C09:nuts-shape', 'returned %r states for n_iter=%d in %d dimensions; %s' % (got.shape, case['n_iter'], t.d, ctx))
    if not np.array_equal(got, got2, equal_nan=True):
        raise Violation('C09:nuts-nondeterministic', 'two runs with one seed differ; %s' % ctx)
    if int_start:
        # the same starting point as float64: the chain is a function of (target, point, seed), not of the array's dtype
        got3 = np.asarray(run(as_int=False))
        if not np.array_equal(got, got3, equal_nan=True):
            k = int(np.argmax(np.any(np.atleast_2d(got != got3), axis=-1)))
            raise Violation('C09:nuts-depends-on-start-dtype', 'the chain from the integer-typed start differs from the chain from the same point as float64 '
                            '(same seed), first at state %d: %r vs %r; %s' % (k, got[k].tolist(), got3[k].tolist(), ctx))
    moved = False
    for k, x in enumerate(got):
        v = t(x)
        if math.isinf(v) or math.isnan(v) or not np.all(np.isfinite(x)):
            raise Violation('C09:nuts-state-outside-support', 'state %d = %r has log-target %r (started from a valid point); %s' % (k, x.tolist(), v, ctx))
        if k and np.any(x != got[k - 1]):
            moved = True
    labels = ['target=' + t.kind]
    if case['near_edge']:
        labels.append('start-near-edge')
    if int_start:
        labels.append('integer-typed-start')
    support = t.kind != 'gauss'
    return CaseResult(labels, True if (moved and support) else None)


# ------------------------------------------------------------------ moments

def strat_moments(tier):
    return st.fixed_dictionaries({
        'algo': st.sampled_from(['nuts', 'metropolis']), 'kind': st.sampled_from(['gauss', 'half', 'exp', 'nan-half']),
        'd': st.integers(1, 2), 'seed': st.integers(0, 10 ** 6), 'tseed': st.integers(0, 10 ** 6),
    })


def run_moments(case, n=None):
    from elfi.methods.mcmc import metropolis, nuts
    desc = {'kind': case['kind'], 'd': case['d'], 'seed': case['tseed'], 'mu_scale': 1.0, 'half_width': 1.0}
    t = Target(desc)
    rs = np.random.RandomState(case['tseed'] + 7)
    x0 = t.start(rs)
    n = n or run_moments.n
    ctx = 'algo=%s target=%r seed=%d n=%d' % (case['algo'], desc, case['seed'], n)
    cov = np.linalg.inv(t.Pm)
    with must_not_raise(P, 'sampling; ' + ctx):
        with np.errstate(all='ignore'):
            if case['algo'] == 'nuts':
                ch = np.asarray(nuts(n + 500, x0.copy(), t, t.grad, n_adapt=500, seed=case['seed']))[500:]
                # measured ESS/n of elfi's NUTS: ~0.5-0.75 on Gaussians, ~0.1-0.16 on targets with a hard boundary
                ess_lb = n / (10.0 if t.kind == 'gauss' else 40.0)
            else:
                sig = 0.8 * np.sqrt(np.diag(cov)) if t.kind != 'exp' else 0.3
                ch = np.asarray(metropolis(n * 4, x0.copy(), t, sig, warmup=500, seed=case['seed']))
                ess_lb = (n * 4) / 100.0
    # reference moments of coordinate 0
    if t.kind == 'gauss':
        m0, v0 = t.mu[0], cov[0, 0]
    elif t.kind == 'exp':
        m0, v0 = 1.0 / t.rate, 1.0 / t.rate ** 2
    else:   # Gaussian truncated to x0 >= mu0: marginal of coordinate 0 is a half normal with scale sqrt(cov00)
        s = math.sqrt(cov[0, 0])
        m0, v0 = t.mu[0] + s * math.sqrt(2 / math.pi), cov[0, 0] * (1 - 2 / math.pi)
    mean, var = ch[:, 0].mean(), ch[:, 0].var()
    tol = 5.0 * math.sqrt(v0 / ess_lb)
    if abs(mean - m0) > tol:
        raise Violation('C09:moments-mean', 'chain mean %.4f, target mean %.4f (tolerance %.4f = 5 sd / sqrt(ESS lower bound %.0f)); %s' % (mean, m0, tol, ess_lb, ctx))
    kurt = {'gauss': 3.0, 'half': 3.87, 'nan-half': 3.87, 'exp': 9.0}[t.kind]
    vtol = 5.0 * math.sqrt((kurt - 1.0) / ess_lb)          # 5 standard errors of a variance estimate from ESS_lb draws
    if not (max(0.2, 1 - vtol) <= var / v0 <= 1 + vtol):
        raise Violation('C09:moments-variance', 'chain variance / target variance = %.3f (tolerance +-%.2f); %s' % (var / v0, vtol, ctx))
    return CaseResult(['algo=' + case['algo'], 'target=' + case['kind']], True)


run_moments.n = 12000


def run_moments_thorough(case):
    return run_moments(case, n=12000)


CHECK = Check(
    P, 'exploration',
    rule=('metropolis: Hypothesis-generated log-targets (Gaussian with random mean/precision in 1-4 dims; the same times a box indicator; '
          'half-space; a target returning NaN outside its domain; flat box; exponential on the positive orthant; each optionally with an additive constant of -1e6 / 3e7), valid starting points '
          '(optionally next to the boundary), scalar or per-dimension proposal scales, warm-up 0-20, 1-80 states, seeds; the returned '
          'chain must be bit-equal to an independent implementation replaying RandomState(seed). nuts: n_iter 2-120, n_adapt, max_depth, whole-number start points also handed over as int64 arrays (same chain as from float64 required), '
          'row count, determinism, finite log-target at every returned state. moments: chains of 12000 (NUTS) / 48000 (Metropolis) draws '
          'against analytic means/variances (Gaussian, Gaussian truncated by -inf or by NaN, exponential) with 5-sigma-over-sqrt(ESS lower bound) tolerances. Non-trivial: the chain contains accepted '
          'and rejected moves and, for targets with a support, at least one proposal outside it (metropolis); the chain moved on a '
          'target with a support (nuts).'),
    parts=[Part('metropolis', run_metropolis, strategy=strat_metropolis, examples={'quick': 600, 'thorough': 48000}),
           Part('nuts', run_nuts, strategy=strat_nuts, examples={'quick': 100, 'thorough': 4800}, shards={'quick': 8, 'thorough': 16}),
           Part('moments', run_moments, strategy=strat_moments, examples={'quick': 32, 'thorough': 480}, shards={'quick': 8, 'thorough': 16}, shrink=False)],
    assumptions=['log-targets return Python floats (array-valued targets are outside the contract)',
                 'the moment tests use fixed seeds from the case and thresholds beyond 5 standard errors with a conservative ESS lower bound',
                 'NUTS may refuse a starting point (ValueError / SystemExit while searching the initial step size): counted, not judged'],
    design_ref='DESIGN.md section 4, C09',
    technique='Hypothesis-generated targets/configurations; reference Metropolis replaying the same random stream (bit-equal); '
              'invariants and analytic moment tests for NUTS',
    level_text='Exploration: Metropolis is compared bit for bit with an independent 15-line implementation consuming the same '
               'stream; NUTS is checked for row count, determinism and support; both reproduce analytic moments within conservative bounds.',
    level_note='Statistical part detects gross algorithmic errors, not small biases.')
