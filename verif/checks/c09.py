"""C09 - MCMC kernels implement their algorithm and never leave the target's support.

nuts-trajectory part: with a given step size and no adaptation the points one NUTS iteration evaluates are THE leapfrog
trajectory through the current state (the algorithm the docstring names), checked against an independent integrator.

Oracle: an independently written random-walk Metropolis that replays the same RandomState stream
(bit-equal chain); for NUTS: row count, seed determinism, finiteness of the target at every
returned state, and moment tests on Gaussian / truncated-Gaussian / exponential targets.
"""

import math

import numpy as np
import scipy.stats as ss
from hypothesis import strategies as st

from ..core import CaseResult, Part, Violation, must_not_raise, time_limit
from ..runner import Check

P = 'C09'
KINDS = ['gauss', 'gauss-box', 'half', 'nan-region', 'flat-box', 'exp']


class Target(object):
    """Log-target built from a description; returns Python floats (the documented contract)."""

    def __init__(self, desc):
        self.kind = desc['kind']
        self.d = desc['d']
        rs = np.random.RandomState(desc['seed'])
        self.mu = rs.randn(self.d) * desc['mu_scale']
        q, _ = np.linalg.qr(rs.randn(self.d, self.d))
        ev = np.exp(rs.uniform(-1.0, 1.0, size=self.d))
        self.Pm = (q * ev).dot(q.T)
        self.Pm = (self.Pm + self.Pm.T) / 2
        self.lo = self.mu - desc['half_width']
        self.hi = self.mu + desc['half_width']
        self.rate = 5.0
        self.ncalls = 0
        # additive constant of the (unnormalised) log-target: a log-likelihood over many observations is uniformly huge
        self.offset = float(desc.get('offset', 0.0))

    def inside(self, x):
        k = self.kind
        if k in ('gauss-box', 'flat-box'):
            return bool(np.all(x >= self.lo) and np.all(x <= self.hi))
        if k in ('half', 'nan-half'):
            return bool(x[0] >= self.mu[0])
        if k == 'nan-region':
            return bool(x[0] > self.mu[0] - 1.0)
        if k == 'exp':
            return bool(np.all(x >= 0))
        return True

    def __call__(self, x):
        self.ncalls += 1
        x = np.asarray(x, dtype=float).reshape(-1)
        if not self.inside(x):
            return float('nan') if self.kind in ('nan-region', 'nan-half') else -float('inf')
        if self.kind == 'flat-box':
            return 0.0 + self.offset
        if self.kind == 'exp':
            return float(-self.rate * x.sum()) + self.offset
        if self.kind == 'nan-region':
            # a log-target built on log(): NaN outside its domain
            return float(-0.5 * (x - self.mu).dot(self.Pm).dot(x - self.mu) + 0.1 * math.log(x[0] - self.mu[0] + 1.0)) + self.offset
        return float(-0.5 * (x - self.mu).dot(self.Pm).dot(x - self.mu)) + self.offset

    def grad(self, x):
        x = np.asarray(x, dtype=float).reshape(-1)
        if not self.inside(x):
            return np.zeros(self.d)
        if self.kind == 'flat-box':
            return np.zeros(self.d)
        if self.kind == 'exp':
            return -self.rate * np.ones(self.d)
        g = -self.Pm.dot(x - self.mu)
        if self.kind == 'nan-region':
            g = g.copy()
            g[0] += 0.1 / (x[0] - self.mu[0] + 1.0)
        return g

    def start(self, rs, near_edge=False):
        if self.kind == 'exp':
            return rs.uniform(0.05, 0.5, size=self.d)
        x = self.mu + rs.uniform(-0.3, 0.3, size=self.d)
        if self.kind in ('half', 'nan-half'):
            x[0] = self.mu[0] + rs.uniform(0.01 if near_edge else 0.2, 0.6)
        if self.kind == 'nan-region' and near_edge:
            x[0] = self.mu[0] - 1.0 + rs.uniform(0.01, 0.2)
        return x


def target_desc():
    return st.fixed_dictionaries({
        'kind': st.sampled_from(KINDS), 'd': st.integers(1, 4), 'seed': st.integers(0, 10 ** 6),
        'mu_scale': st.sampled_from([0.0, 1.0, 5.0]), 'half_width': st.sampled_from([0.5, 1.0, 3.0]),
        'offset': st.sampled_from([0.0, 0.0, 0.0, -1e6, 3e7]),
    })


# ------------------------------------------------------------------ Metropolis: exact chain

def strat_metropolis(tier):
    return st.fixed_dictionaries({
        'target': target_desc(), 'n': st.integers(1, 80), 'warmup': st.integers(0, 20),
        'sigma': st.one_of(st.sampled_from([0.1, 0.5, 1.0, 3.0]), st.lists(st.sampled_from([0.1, 0.5, 1.0, 3.0]), min_size=4, max_size=4)),
        'seed': st.integers(0, 2 ** 32 - 1), 'near_edge': st.booleans(),
        # integer-typed start and/or proposal scales (the chain is still a float chain)
        'int_inputs': st.sampled_from(['no', 'no', 'no', 'x0', 'sigma', 'both']),
    })


def ref_metropolis(n, x0, target, sigma, warmup, seed):
    rs = np.random.RandomState(seed)
    x = np.array(x0, dtype=float)
    tc = target(x)
    out = []
    stats = {'acc': 0, 'rej': 0, 'outside': 0}
    for i in range(n + warmup):
        prop = x + sigma * rs.randn(*x.shape)
        tp = target(prop)
        u = rs.rand()
        finite = not (math.isinf(tp) or math.isnan(tp))
        if not finite:
            stats['outside'] += 1
        with np.errstate(all='ignore'):
            ok = finite and not (np.exp(tp - tc) < u)
        if ok:
            x, tc = prop, tp
            stats['acc'] += 1
        else:
            stats['rej'] += 1
        out.append(x.copy())
    return np.array(out[warmup:]), stats


def run_metropolis(case):
    from elfi.methods.mcmc import metropolis
    t = Target(case['target'])
    d = t.d
    rs = np.random.RandomState(case['target']['seed'] + 7)
    x0 = t.start(rs, case['near_edge'])
    sigma = case['sigma'] if not isinstance(case['sigma'], list) else np.array(case['sigma'][:d])
    ii = case.get('int_inputs', 'no')
    if ii in ('x0', 'both'):
        xi = np.round(x0).astype(int)
        v = t(xi)
        if not (math.isinf(v) or math.isnan(v)):
            x0 = xi
    if ii in ('sigma', 'both'):
        sigma = 1 if not isinstance(case['sigma'], list) else np.array([1, 2, 1, 3][:d])
    ctx = 'target=%r n=%d warmup=%d sigma=%r (%s) seed=%d x0=%r (%s)' % (case['target'], case['n'], case['warmup'], sigma, np.asarray(sigma).dtype,
                                                                      case['seed'], x0.tolist(), x0.dtype)
    with must_not_raise(P, 'metropolis; ' + ctx):
        with np.errstate(all='ignore'):
            got = metropolis(case['n'], x0.copy(), Target(case['target']), sigma, warmup=case['warmup'], seed=case['seed'])
            got2 = metropolis(case['n'], x0.copy(), Target(case['target']), sigma, warmup=case['warmup'], seed=case['seed'])
    ref, stats = ref_metropolis(case['n'], x0, t, sigma, case['warmup'], case['seed'])
    got = np.asarray(got)
    if got.shape != (case['n'], d):
        raise Violation('C09:metropolis-shape', 'returned %r states, requested %d in %d dimensions; %s' % (got.shape, case['n'], d, ctx))
    if not np.array_equal(got, got2):
        raise Violation('C09:metropolis-nondeterministic', 'two runs with one seed differ; %s' % ctx)
    if not np.array_equal(got, ref):
        k = int(np.flatnonzero(np.any(got != ref, axis=1))[0])
        raise Violation('C09:metropolis-not-the-chain-of-its-seed',
                        'state %d (after %d warm-up steps) is %r, the random-walk Metropolis chain of this seed has %r; %s'
                        % (k, case['warmup'], got[k].tolist(), ref[k].tolist(), ctx))
    for k, x in enumerate(got):
        v = t(x)
        if math.isinf(v) or math.isnan(v):
            raise Violation('C09:metropolis-state-outside-support', 'state %d = %r has log-target %r; %s' % (k, x.tolist(), v, ctx))
    labels = ['target=' + t.kind]
    if x0.dtype.kind == 'i' or np.asarray(sigma).dtype.kind == 'i':
        labels.append('integer-typed-inputs')
    if stats['outside']:
        labels.append('proposal-outside-support')
    mixed = stats['acc'] > 0 and stats['rej'] > 0
    support = t.kind in ('gauss-box', 'half', 'nan-region', 'flat-box', 'exp')
    return CaseResult(labels, True if (mixed and (not support or stats['outside'] > 0)) else None)


# ------------------------------------------------------------------ NUTS invariants

def strat_nuts(tier):
    return st.fixed_dictionaries({
        'target': target_desc(), 'n_iter': st.integers(2, 120), 'n_adapt': st.one_of(st.none(), st.integers(0, 40)),
        'seed': st.integers(0, 2 ** 32 - 1), 'near_edge': st.booleans(), 'max_depth': st.sampled_from([5, 3, 2]),
        # the starting point rounded to whole numbers (when that point is valid) and handed over as an integer array
        'int_start': st.sampled_from([False, False, True]),
    })


def run_nuts(case):
    from elfi.methods.mcmc import nuts
    t = Target(case['target'])
    rs = np.random.RandomState(case['target']['seed'] + 7)
    x0 = t.start(rs, case['near_edge'])
    int_start = False
    if case.get('int_start'):
        xi = np.ceil(x0) if t.kind in ('half', 'nan-half', 'exp') else np.round(x0)
        v = t(xi)
        if not (math.isinf(v) or math.isnan(v)):
            x0 = xi
            int_start = True
    ctx = 'target=%r n_iter=%d n_adapt=%r seed=%d max_depth=%d x0=%r%s' % (case['target'], case['n_iter'], case['n_adapt'], case['seed'], case['max_depth'], x0.tolist(), ' (passed as an int64 array)' if int_start else '')
    kw = dict(n_adapt=case['n_adapt'], seed=case['seed'], max_depth=case['max_depth'])

    def run(as_int=int_start):
        tt = Target(case['target'])
        with np.errstate(all='ignore'):
            return nuts(case['n_iter'], x0.astype(np.int64) if as_int else x0.copy(), tt, tt.grad, **kw)
    try:
        with time_limit(300, 'C09:nuts-hangs', 'nuts'):
            got = np.asarray(run())
    except (ValueError, SystemExit) as e:
        # documented refusals: no acceptable initial step size from this starting point
        return CaseResult(['nuts-refused-start'], None)
    except Exception as e:
        with must_not_raise(P, 'nuts; ' + ctx):
            raise
        raise
    got2 = np.asarray(run())
    if got.shape != (case['n_iter'], t.d):
        raise Violation('C09:nuts-shape', 'returned %r states for n_iter=%d in %d dimensions; %s' % (got.shape, case['n_iter'], t.d, ctx))
    if not np.array_equal(got, got2, equal_nan=True):
        raise Violation('C09:nuts-nondeterministic', 'two runs with one seed differ; %s' % ctx)
    if int_start:
        # the same starting point as float64: the chain is a function of (target, point, seed), not of the array's dtype
        got3 = np.asarray(run(as_int=False))
        if not np.array_equal(got, got3, equal_nan=True):
            k = int(np.argmax(np.any(np.atleast_2d(got != got3), axis=-1)))
            raise Violation('C09:nuts-depends-on-start-dtype', 'the chain from the integer-typed start differs from the chain from the same point as float64 '
                            '(same seed), first at state %d: %r vs %r; %s' % (k, got[k].tolist(), got3[k].tolist(), ctx))
    moved = False
    for k, x in enumerate(got):
        v = t(x)
        if math.isinf(v) or math.isnan(v) or not np.all(np.isfinite(x)):
            raise Violation('C09:nuts-state-outside-support', 'state %d = %r has log-target %r (started from a valid point); %s' % (k, x.tolist(), v, ctx))
        if k and np.any(x != got[k - 1]):
            moved = True
    labels = ['target=' + t.kind]
    if case['near_edge']:
        labels.append('start-near-edge')
    if int_start:
        labels.append('integer-typed-start')
    support = t.kind != 'gauss'
    return CaseResult(labels, True if (moved and support) else None)



# ------------------------------------------------------------------ NUTS: one iteration is a leapfrog trajectory

class LoggedTarget(Target):
    """Records every point at which the log-target or its gradient is evaluated."""

    def __init__(self, desc):
        Target.__init__(self, desc)
        self.visited = []

    def __call__(self, x):
        self.visited.append(np.array(x, dtype=float).reshape(-1))
        return Target.__call__(self, x)

    def grad(self, x):
        self.visited.append(np.array(x, dtype=float).reshape(-1))
        return Target.grad(self, x)


def strat_trajectory(tier):
    return st.fixed_dictionaries({
        'target': target_desc(), 'seed': st.integers(0, 2 ** 32 - 1), 'near_edge': st.booleans(),
        'eps': st.sampled_from([0.003, 0.01, 0.03, 0.1, 0.3, 1.0]), 'max_depth': st.sampled_from([1, 2, 3, 5, 7]),
    })


def run_trajectory(case):
    """nuts(n_iter=1, n_adapt=0, stepsize=eps): the step size of the one iteration is the given one, so every point the
    iteration evaluates must lie on THE leapfrog trajectory through the start point (Hoffman & Gelman, Algorithm 6:
    r' = r + eps/2 grad L(theta); theta' = theta + eps r'; r'' = r' + eps/2 grad L(theta')).  The initial momentum is
    not assumed: it is inferred from the first new point, everything after that is determined."""
    from elfi.methods.mcmc import nuts
    t = LoggedTarget(case['target'])
    ref = Target(case['target'])
    rs = np.random.RandomState(case['target']['seed'] + 7)
    x0 = t.start(rs, case['near_edge'])
    eps, D = case['eps'], case['max_depth']
    ctx = 'target=%r seed=%d stepsize=%r max_depth=%d x0=%r; nuts(1, x0, target, grad, n_adapt=0, stepsize=stepsize, max_depth=max_depth, seed=seed)' % (
        case['target'], case['seed'], eps, D, x0.tolist())
    with must_not_raise(P, 'nuts; ' + ctx):
        with time_limit(120, 'C09:nuts-hangs', 'nuts'):
            with np.errstate(all='ignore'):
                got = np.asarray(nuts(1, x0.copy(), t, t.grad, n_adapt=0, stepsize=eps, max_depth=D, seed=case['seed']))
    if got.shape != (1, t.d):
        raise Violation('C09:nuts-shape', 'returned %r states for n_iter=1 in %d dimensions; %s' % (got.shape, t.d, ctx))
    # distinct visited points in order of first evaluation
    pts = []
    for v in t.visited:
        if not any(np.array_equal(v, p) for p in pts):
            pts.append(v)
    new = [p for p in pts if not np.array_equal(p, x0)]
    labels = ['target=' + t.kind, 'new-points=%s' % ('0' if not new else '1' if len(new) == 1 else '2-3' if len(new) <= 3 else '4-15' if len(new) <= 15 else '16+')]
    scale = 1.0 + float(np.max(np.abs(x0)))
    if len(new) > 2 ** (D + 1) - 1:
        raise Violation('C09:nuts-trajectory-too-long', 'one iteration evaluated %d new points, a tree of depth <= %d has at most %d leaves; %s'
                        % (len(new), D, 2 ** (D + 1) - 1, ctx))
    if not new:
        if not np.array_equal(got[0], x0):
            raise Violation('C09:nuts-state-not-on-trajectory', 'returned state %r was never evaluated; %s' % (got[0].tolist(), ctx))
        return CaseResult(labels, None)
    # the first new point is one leapfrog step from x0 in direction v: b = x0 + v eps (r0 + v eps/2 g0); take v = +1 (v = -1 gives
    # the same trajectory traversed backwards)
    g0 = ref.grad(x0)
    b = new[0]
    r0 = (b - x0) / eps - 0.5 * eps * g0
    if not np.all(np.isfinite(r0)):
        raise Violation('C09:nuts-point-not-on-leapfrog-trajectory', 'first evaluated point %r is not finite; %s' % (b.tolist(), ctx))
    n_side = 2 ** (D + 1)
    traj = {0: x0}
    for v in (1, -1):
        th, r = x0.copy(), r0.copy()
        for k in range(1, n_side + 1):
            with np.errstate(all='ignore'):
                r = r + 0.5 * v * eps * ref.grad(th)
                th = th + v * eps * r
                r = r + 0.5 * v * eps * ref.grad(th)
            if not np.all(np.isfinite(th)):
                break
            traj[v * k] = th.copy()
    keys = sorted(traj)
    arr = np.array([traj[k] for k in keys])
    idx = []
    for j, p in enumerate(new):
        if not np.all(np.isfinite(p)):
            labels.append('non-finite-point')
            continue
        dist = np.max(np.abs(arr - p), axis=1)
        m = int(np.argmin(dist))
        span = scale + float(np.max(np.abs(arr[m])))
        if not dist[m] <= 1e-8 * span:
            raise Violation('C09:nuts-point-not-on-leapfrog-trajectory',
                            'the %d-th new point the iteration evaluated, %r, is not on the leapfrog trajectory with step %r through the start '
                            '(initial momentum %r inferred from the first point %r); nearest trajectory point is #%d = %r (distance %.3g); %s'
                            % (j + 1, p.tolist(), eps, r0.tolist(), b.tolist(), keys[m], arr[m].tolist(), dist[m], ctx))
        idx.append(keys[m])
    if idx:
        lo, hi = min(idx + [0]), max(idx + [0])
        missing = [k for k in range(lo, hi + 1) if k != 0 and k not in idx]
        if missing and 'non-finite-point' not in labels:
            raise Violation('C09:nuts-trajectory-not-contiguous', 'evaluated trajectory indices %r skip %r; %s' % (sorted(idx), missing, ctx))
    st_ = got[0]
    if not (np.array_equal(st_, x0) or any(np.array_equal(st_, p) for p in new)):
        raise Violation('C09:nuts-state-not-on-trajectory', 'returned state %r is neither the start nor a point the iteration evaluated; %s' % (st_.tolist(), ctx))
    v = ref(st_)
    if math.isinf(v) or math.isnan(v):
        raise Violation('C09:nuts-state-outside-support', 'returned state %r has log-target %r; %s' % (st_.tolist(), v, ctx))
    if not np.array_equal(st_, x0):
        labels.append('moved')
    return CaseResult(labels, True if len(new) >= 3 else None)


# ------------------------------------------------------------------ moments

def strat_moments(tier):
    return st.fixed_dictionaries({
        'algo': st.sampled_from(['nuts', 'metropolis']), 'kind': st.sampled_from(['gauss', 'half', 'exp', 'nan-half']),
        'd': st.integers(1, 2), 'seed': st.integers(0, 10 ** 6), 'tseed': st.integers(0, 10 ** 6),
    })


def run_moments(case, n=None):
    from elfi.methods.mcmc import metropolis, nuts
    desc = {'kind': case['kind'], 'd': case['d'], 'seed': case['tseed'], 'mu_scale': 1.0, 'half_width': 1.0}
    t = Target(desc)
    rs = np.random.RandomState(case['tseed'] + 7)
    x0 = t.start(rs)
    n = n or run_moments.n
    ctx = 'algo=%s target=%r seed=%d n=%d' % (case['algo'], desc, case['seed'], n)
    cov = np.linalg.inv(t.Pm)
    with must_not_raise(P, 'sampling; ' + ctx):
        with np.errstate(all='ignore'):
            if case['algo'] == 'nuts':
                ch = np.asarray(nuts(n + 500, x0.copy(), t, t.grad, n_adapt=500, seed=case['seed']))[500:]
                # measured ESS/n of elfi's NUTS: ~0.5-0.75 on Gaussians, ~0.1-0.16 on targets with a hard boundary
                ess_lb = n / (10.0 if t.kind == 'gauss' else 40.0)
            else:
                sig = 0.8 * np.sqrt(np.diag(cov)) if t.kind != 'exp' else 0.3
                ch = np.asarray(metropolis(n * 4, x0.copy(), t, sig, warmup=500, seed=case['seed']))
                ess_lb = (n * 4) / 100.0
    # reference moments of coordinate 0
    if t.kind == 'gauss':
        m0, v0 = t.mu[0], cov[0, 0]
    elif t.kind == 'exp':
        m0, v0 = 1.0 / t.rate, 1.0 / t.rate ** 2
    else:   # Gaussian truncated to x0 >= mu0: marginal of coordinate 0 is a half normal with scale sqrt(cov00)
        s = math.sqrt(cov[0, 0])
        m0, v0 = t.mu[0] + s * math.sqrt(2 / math.pi), cov[0, 0] * (1 - 2 / math.pi)
    mean, var = ch[:, 0].mean(), ch[:, 0].var()
    tol = 5.0 * math.sqrt(v0 / ess_lb)
    if abs(mean - m0) > tol:
        raise Violation('C09:moments-mean', 'chain mean %.4f, target mean %.4f (tolerance %.4f = 5 sd / sqrt(ESS lower bound %.0f)); %s' % (mean, m0, tol, ess_lb, ctx))
    kurt = {'gauss': 3.0, 'half': 3.87, 'nan-half': 3.87, 'exp': 9.0}[t.kind]
    vtol = 5.0 * math.sqrt((kurt - 1.0) / ess_lb)          # 5 standard errors of a variance estimate from ESS_lb draws
    if not (max(0.2, 1 - vtol) <= var / v0 <= 1 + vtol):
        raise Violation('C09:moments-variance', 'chain variance / target variance = %.3f (tolerance +-%.2f); %s' % (var / v0, vtol, ctx))
    return CaseResult(['algo=' + case['algo'], 'target=' + case['kind']], True)


run_moments.n = 12000


def run_moments_thorough(case):
    return run_moments(case, n=12000)


CHECK = Check(
    P, 'exploration',
    rule=('metropolis: Hypothesis-generated log-targets (Gaussian with random mean/precision in 1-4 dims; the same times a box indicator; '
          'half-space; a target returning NaN outside its domain; flat box; exponential on the positive orthant; each optionally with an additive constant of -1e6 / 3e7), valid starting points '
          '(optionally next to the boundary), scalar or per-dimension proposal scales, warm-up 0-20, 1-80 states, seeds; the returned '
          'chain must be bit-equal to an independent implementation replaying RandomState(seed). nuts: n_iter 2-120, n_adapt, max_depth, whole-number start points also handed over as int64 arrays (same chain as from float64 required), '
          'row count, determinism, finite log-target at every returned state. nuts-trajectory: single iterations with a GIVEN step size (0.003-1, n_adapt=0, max_depth 1-7) on the same targets with a target/gradient that logs every evaluation point: every evaluated point must lie (1e-8 relative) on the leapfrog trajectory through the start whose initial momentum is inferred from the first new point, the evaluated trajectory indices are contiguous, at most 2^(max_depth+1)-1 new points, and the returned state is the start or an evaluated point with finite log-target. moments: chains of 12000 (NUTS) / 48000 (Metropolis) draws '
          'against analytic means/variances (Gaussian, Gaussian truncated by -inf or by NaN, exponential) with 5-sigma-over-sqrt(ESS lower bound) tolerances. Non-trivial: the chain contains accepted '
          'and rejected moves and, for targets with a support, at least one proposal outside it (metropolis); the chain moved on a '
          'target with a support (nuts); the iteration evaluated at least 3 new points (nuts-trajectory).'),
    parts=[Part('metropolis', run_metropolis, strategy=strat_metropolis, examples={'quick': 600, 'thorough': 48000}),
           Part('nuts', run_nuts, strategy=strat_nuts, examples={'quick': 100, 'thorough': 4800}, shards={'quick': 8, 'thorough': 16}),
           Part('nuts-trajectory', run_trajectory, strategy=strat_trajectory, examples={'quick': 800, 'thorough': 48000}, shards={'quick': 8, 'thorough': 16}),
           Part('moments', run_moments, strategy=strat_moments, examples={'quick': 32, 'thorough': 480}, shards={'quick': 8, 'thorough': 16}, shrink=False)],
    assumptions=['log-targets return Python floats (array-valued targets are outside the contract)',
                 'the moment tests use fixed seeds from the case and thresholds beyond 5 standard errors with a conservative ESS lower bound',
                 'NUTS may refuse a starting point (ValueError / SystemExit while searching the initial step size): counted, not judged'],
    design_ref='DESIGN.md section 4, C09',
    technique='Hypothesis-generated targets/configurations; reference Metropolis replaying the same random stream (bit-equal); '
              'NUTS: logged evaluation points of single iterations against a reference leapfrog trajectory, invariants and analytic moment tests',
    level_text='Exploration: Metropolis is compared bit for bit with an independent 15-line implementation consuming the same '
               'stream; NUTS is checked for row count, determinism and support, and every point one iteration evaluates against the reference leapfrog trajectory; both reproduce analytic moments within conservative bounds.',
    level_note='Statistical part detects gross algorithmic errors, not small biases.')
