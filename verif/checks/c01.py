"""C01 - Rejection ABC returns exactly the best simulated draws, row-consistent.

Oracle: the test-owned simulator logs every draw; from that log the discrepancy of every consumed
draw is recomputed independently and the returned rows are compared with the n_samples best
candidates (row identity through a `rid` output that names the draw each row came from).
"""

import math

import numpy as np
from hypothesis import strategies as st

from .. import models
from ..core import CaseResult, Part, Violation, must_not_raise, soft, time_limit
from ..runner import Check

P = 'C01'


def strat(tier):
    def objective(n):
        return st.one_of(
            st.tuples(st.just('n_sim'), st.integers(n, 200)),
            st.tuples(st.just('n_sim'), st.integers(n, n + 12)),
            st.tuples(st.just('quantile'), st.one_of(st.sampled_from([1.0, 0.5, 0.1, 0.3, 0.07, 0.25]),
                                                     st.floats(0.05, 1.0, allow_nan=False))),
            st.tuples(st.just('threshold'), st.integers(5, 80)),      # percent of a pilot sample
        )
    return st.integers(1, 20).flatmap(lambda n: st.fixed_dictionaries({
        'model': models.model_desc(),
        'n': st.just(n),
        'bs': st.integers(1, 12),
        'obj': objective(n),
        'seed': st.one_of(st.integers(0, 2 ** 32 - 1), st.integers(0, 20)),
        'mpb': st.integers(1, 4),
        'extra_outputs': st.booleans(),
        # an earlier run on the SAME sampler object (None | 'same' objective | ('n_sim', k) with a larger budget)
        # or with another KIND of objective (a threshold / quantile run first: nothing of it may leak into the judged run)
        'prerun': st.one_of(st.none(), st.none(), st.just('same'), st.tuples(st.just('n_sim'), st.integers(n, 300)),
                            st.tuples(st.just('threshold'), st.integers(20, 80)),
                            st.tuples(st.just('quantile'), st.sampled_from([0.5, 0.25, 1.0]))),
    }))


def resolve_threshold(desc, pct, seed):
    """Threshold = pct-percentile of the finite discrepancies of a 300-draw pilot (so that runs terminate)."""
    m, info = models.build(desc, name='pilot')
    d = m.generate(300, ['d'], seed=(seed + 12345) % (2 ** 32))['d']
    models.reset()
    fin = np.sort(d[np.isfinite(d)])
    if len(fin) < 15:
        return None
    return float(fin[min(len(fin) - 1, int(len(fin) * pct / 100.0))])


def run_case(case):
    import elfi
    desc, n, bs = case['model'], case['n'], case['bs']
    kind, val = case['obj']
    labels = ['objective=' + kind]
    known = []
    if kind == 'threshold':
        desc = dict(desc, infcut=None) if desc['disc'] == 'custom' else desc
        thr = resolve_threshold(desc, val, case['seed'])
        if thr is None:
            return CaseResult(['pilot-degenerate'], None)
        objkw = {'threshold': thr}
    elif kind == 'quantile':
        objkw = {'quantile': float(val)}
    else:
        objkw = {'n_sim': int(val)}
    pre = case.get('prerun')
    pthr = None
    if pre is not None and pre != 'same' and pre[0] == 'threshold':
        pthr = resolve_threshold(desc, pre[1], case['seed'] + 1)
    models.reset()
    m, info = models.build(desc)
    outs = ['rid'] + (info['sums'] + info['extra'] if case['extra_outputs'] else [])
    with must_not_raise(P, 'Rejection(batch_size=%d, seed=%d).sample(%d, %r)' % (bs, case['seed'], n, objkw)):
        rej = elfi.Rejection(m['d'], batch_size=bs, seed=case['seed'], output_names=outs,
                             max_parallel_batches=case['mpb'])
        # a run in this domain costs milliseconds (threshold >= 5th pilot percentile): 60 s means it never finishes
        with time_limit(60, 'C01:run-does-not-terminate', 'Rejection.sample(%d, %r) with batch_size %d' % (n, objkw, bs)):
            if pre is not None:
                if pre == 'same':
                    prekw = objkw
                elif pre[0] == 'n_sim':
                    prekw = {'n_sim': int(pre[1])}
                elif pre[0] == 'quantile':
                    prekw = {'quantile': float(pre[1])}
                else:
                    prekw = {'threshold': pthr} if pthr is not None else {'n_sim': n}
                labels.append('earlier-run=' + (pre if pre == 'same' else pre[0]))
                first = rej.sample(n, bar=False, **prekw)
                first_snap = {k: np.array(v, copy=True) for k, v in first.outputs.items()}
                first_meta = (float(first.threshold), int(first.n_sim), int(first.n_batches))
                models.reset()        # the oracle judges the second run by what the second run consumed
            res = rej.sample(n, bar=False, **objkw)
            if pre is not None:
                # the result the earlier call returned belongs to the caller: running the sampler again must not rewrite it
                changed = sorted(k for k, v in first_snap.items() if not np.array_equal(np.asarray(first.outputs[k]), v, equal_nan=True))
                meta_now = (float(first.threshold), int(first.n_sim), int(first.n_batches))
                if changed or not (meta_now == first_meta or (np.isnan(meta_now[0]) and np.isnan(first_meta[0]) and meta_now[1:] == first_meta[1:])):
                    raise Violation('C01:earlier-result-rewritten-by-later-run',
                                    'after sample(%d, %r) the result returned by the earlier sample(%d, %r) on the same sampler changed in %r (threshold/n_sim/n_batches %r -> %r); model=%r'
                                    % (n, objkw, n, prekw, changed, first_meta, meta_now, desc))
    log = list(models.LOG)
    bis = [b for b, _, _ in log]
    B = len(log)
    ctx = 'n_samples=%d batch_size=%d objective=%r seed=%d model=%r' % (n, bs, objkw, case['seed'], desc)
    if bis != list(range(B)):
        raise Violation('C01:batches-not-consumed-in-order-once', 'simulated batch indices %r; %s' % (bis, ctx))
    if res.n_batches != B or res.n_sim != B * bs:
        raise Violation('C01:n_sim-accounting', 'consumed %d batches of %d but result reports n_batches=%r n_sim=%r; %s'
                        % (B, bs, res.n_batches, res.n_sim, ctx))
    if kind == 'n_sim':
        budget = int(val)
    elif kind == 'quantile':
        budget = math.ceil(n / float(val))
    else:
        budget = None
    if budget is not None and B != math.ceil(budget / bs):
        raise Violation('C01:budget-batches', 'budget %d with batch_size %d needs exactly %d batches, %d were consumed; %s'
                        % (budget, bs, math.ceil(budget / bs), B, ctx))
    rec = models.recompute(desc, log)
    D = rec['d']
    cand = np.ones(len(D), bool) if kind != 'threshold' else (D <= objkw['threshold'])
    if cand.sum() < n:
        raise Violation('C01:finished-with-too-few-candidates', 'run finished with %d candidate draws < n_samples=%d; %s' % (cand.sum(), n, ctx))
    best = np.sort(D[cand])[:n]
    for k in ['d', 'rid'] + desc['pnames'] + (outs[1:]):
        if k not in res.outputs or len(res.outputs[k]) != n:
            raise Violation('C01:output-shape', 'output %r missing or not of length n_samples=%d (%r); %s'
                            % (k, n, None if k not in res.outputs else np.shape(res.outputs[k]), ctx))
    rd = np.asarray(res.outputs['d'], dtype=float)
    r = np.asarray(res.outputs['rid'])
    has_inf = bool(np.isinf(best).any())
    if not np.array_equal(rd, best):
        raise Violation('C01:not-the-best-draws', 'returned discrepancies %r are not the %d smallest candidate discrepancies %r (ascending); %s'
                        % (rd.tolist(), n, best.tolist(), ctx))
    # row identity
    bad_rows = []
    ok_rid = np.array([(float(x).is_integer() and 0 <= x < len(D)) for x in r])
    for i in range(n):
        if not ok_rid[i]:
            bad_rows.append(i)
            continue
        j = int(r[i])
        row_ok = cand[j] and (D[j] == rd[i])
        for pi, pn in enumerate(desc['pnames']):
            row_ok = row_ok and np.array_equal(np.asarray(res.outputs[pn][i]), np.asarray(rec['params'][pi][j]))
        if case['extra_outputs']:
            for c, sn in enumerate(info['sums']):
                row_ok = row_ok and np.array_equal(res.outputs[sn][i], rec['sums'][c][j])
            if info['extra']:
                row_ok = row_ok and np.array_equal(res.outputs['vs'][i], rec['vs'][j])
        if not row_ok:
            bad_rows.append(i)
    dup = len(set(r[ok_rid].tolist())) != int(ok_rid.sum())
    if bad_rows or dup:
        only_inf = all(np.isinf(rd[i]) for i in bad_rows) and not dup
        sig = 'C01:placeholder-rows-inf' if (only_inf and bad_rows) else 'C01:row-inconsistent'
        msg = ('rows %r of the result do not come from one simulated draw (rid=%r, d=%r)%s; %s'
               % (bad_rows, r.tolist(), rd.tolist(), ' [duplicate draws returned]' if dup else '', ctx))
        soft(P, known, sig, msg)
    thr_rep = float(res.threshold)
    if not (thr_rep == rd[-1] or (np.isinf(thr_rep) and np.isinf(rd[-1]))):
        raise Violation('C01:reported-threshold', 'result.threshold=%r but the largest returned discrepancy is %r; %s' % (thr_rep, rd[-1], ctx))
    if kind == 'threshold' and not np.all(rd <= objkw['threshold']):
        raise Violation('C01:above-threshold', 'returned discrepancies %r exceed the threshold %r' % (rd.tolist(), objkw['threshold']))
    # labels
    if budget is not None and budget % bs:
        labels.append('bs-does-not-divide-budget')
    labels.append('n<bs' if n < bs else ('n=bs' if n == bs else 'n>bs'))
    cut = best[-1]
    if np.sum(D[cand] == cut) > np.sum(best == cut):
        labels.append('ties-at-the-cut')
    if len(set(D.tolist())) < len(D):
        labels.append('ties')
    if np.isinf(D).any():
        labels.append('inf-present')
    if has_inf:
        labels.append('inf-returned')
    if case['extra_outputs']:
        labels.append('extra-outputs')
    if case['mpb'] > 1:
        labels.append('mpb>1')
    if case.get('prerun') is not None:
        labels.append('second-run-on-same-sampler')
    if desc['disc'] != 'custom':
        labels.append('Distance-node')
    nontrivial = True if (B >= 2 and B * bs > n) else None
    return CaseResult(labels, nontrivial, known)


def strat_adaptive(tier):
    return st.integers(2, 15).flatmap(lambda n: st.fixed_dictionaries({
        'model': models.model_desc().map(lambda d: dict(d, disc='adaptive', infcut=None, width=max(2, d['width']),
                                                             kind='float' if d['kind'] == 'coarse' else d['kind'])),
        'n': st.just(n),
        'bs': st.integers(1, 10),
        'obj': st.one_of(st.tuples(st.just('n_sim'), st.integers(n + 3, 120)),
                         st.tuples(st.just('quantile'), st.sampled_from([0.5, 0.3, 0.2, 0.1]))),
        'seed': st.integers(0, 2 ** 32 - 1),
        'extra_outputs': st.booleans(),
        # summaries named in output_names as well, in reversed (non-parent) order or only the last one
        'summary_outputs': st.sampled_from(['none', 'none', 'reversed', 'last-only']),
    }))


def run_adaptive(case):
    """Rejection with an AdaptiveDistance node: the n best draws by the first-stage distance are returned re-sorted by,
    and aligned with, the newest (scaled) distance."""
    import elfi
    desc, n, bs = case['model'], case['n'], case['bs']
    kind, val = case['obj']
    objkw = {kind: val}
    models.reset()
    m, info = models.build(desc)
    outs = ['rid'] + (info['extra'] if case['extra_outputs'] else [])
    so = case.get('summary_outputs', 'none')
    if so == 'reversed':
        outs = outs + list(reversed(info['sums']))
    elif so == 'last-only':
        outs = outs + [info['sums'][-1]]
    ctx = 'n_samples=%d batch_size=%d objective=%r seed=%d output_names=%r model=%r' % (n, bs, objkw, case['seed'], outs, desc)
    with must_not_raise(P, 'Rejection with AdaptiveDistance: ' + ctx):
        res = elfi.Rejection(m['d'], batch_size=bs, seed=case['seed'], output_names=outs).sample(n, bar=False, **objkw)
    log = list(models.LOG)
    B = len(log)
    if [b for b, _, _ in log] != list(range(B)) or res.n_sim != B * bs:
        raise Violation('C01:adaptive-accounting', 'batches %r, n_sim %r; %s' % ([b for b, _, _ in log], res.n_sim, ctx))
    rec = models.recompute(desc, log)
    if np.any(rec['scale'] == 0) or B * bs < n:
        return CaseResult(['zero-variance-summary'], None)
    D0, D1 = rec['d'], rec['d_new']
    rd = np.asarray(res.outputs['d'], dtype=float)
    r = np.asarray(res.outputs['rid'])
    if rd.shape != (n,) or r.shape != (n,):
        raise Violation('C01:adaptive-output-shape', 'returned d has shape %r, rid %r, expected (%d,); %s' % (rd.shape, r.shape, n, ctx))
    if len(set(r.tolist())) != n or not all(0 <= x < len(D0) for x in r):
        raise Violation('C01:adaptive-row-identity', 'returned rid %r are not %d distinct consumed draws; %s' % (r.tolist(), n, ctx))
    best0 = np.sort(D0)[:n]
    if not np.allclose(np.sort(D0[r]), best0, rtol=0, atol=0):
        raise Violation('C01:adaptive-not-the-best-draws', 'returned draws have first-stage distances %r, the %d smallest are %r; %s'
                        % (np.sort(D0[r]).tolist(), n, best0.tolist(), ctx))
    if not np.allclose(rd, D1[r], rtol=1e-9, atol=0):
        raise Violation('C01:adaptive-misaligned', 'returned discrepancy column %r is not the newest distance of the returned rows %r '
                        '(rows and discrepancies are misaligned); %s' % (rd.tolist(), D1[r].tolist(), ctx))
    if np.any(np.diff(rd) < 0):
        raise Violation('C01:adaptive-not-ascending', 'returned discrepancies are not ascending: %r; %s' % (rd.tolist(), ctx))
    for pi, pn in enumerate(desc['pnames']):
        if not np.array_equal(res.outputs[pn], rec['params'][pi][r]):
            raise Violation('C01:adaptive-row-inconsistent', 'parameter %s rows do not match the draws named by rid; %s' % (pn, ctx))
    if float(res.threshold) != rd[-1]:
        raise Violation('C01:adaptive-threshold', 'threshold %r != largest returned discrepancy %r; %s' % (res.threshold, rd[-1], ctx))
    reordered = not np.array_equal(np.argsort(D0[r], kind='stable'), np.arange(n))
    return CaseResult(['reordered-by-new-distance'] if reordered else ['same-order'], True if (reordered and B >= 2) else None)


CHECK = Check(
    P, 'exploration',
    rule=('Hypothesis-generated models (1-3 parameters with uniform/normal/discrete/hierarchical priors in arbitrary name order, scalar/'
          'vector simulator output, float or tie-producing integer outputs, custom discrepancy with a rule mapping part of the range to '
          'inf or a scipy Distance node) x n_samples 1..20 x batch_size 1..12 x objective (n_sim in [n_samples,200] | quantile in '
          '[0.05,1] | threshold = 5..80 % pilot percentile) x max_parallel_batches 1..4 x seed x an optional earlier run on the same sampler object (same objective, a larger n_sim budget, or ANOTHER kind of objective: threshold / quantile; the earlier result must stay as it was), custom discrepancies in units of 1e-9 / 1 / 1e9, adaptive part: summaries optionally named in output_names in non-parent order. Non-trivial = at least 2 batches '
          'consumed and more draws than n_samples (something was rejected); distinct by hash of the case.'),
    parts=[Part('rejection', run_case, strategy=strat, examples={'quick': 800, 'thorough': 32000}),
           Part('adaptive-distance', run_adaptive, strategy=strat_adaptive, examples={'quick': 200, 'thorough': 8000})],
    assumptions=['native (in-process, lazy) client: the simulator log is exactly the consumed batches; schedules are C04',
                 'n_sim >= n_samples; NaN discrepancies are not generated',
                 'the summary/discrepancy functions are test-owned pure functions, re-applied by the oracle to the logged simulator output'],
    design_ref='DESIGN.md section 4, C01',
    technique='Hypothesis-generated models/configurations; oracle = independent recomputation from a test-owned simulator log '
              'with per-row draw identities',
    level_text='Exploration over models x (n_samples, batch_size, objective, seed): every returned row is traced to the simulated draw '
               'it claims to be and compared bit-exactly; the set of returned discrepancies is compared with the sorted candidates; '
               'batch accounting is compared with the log. Not a proof.',
    level_note='Trusts the simulator log and rid output as the independent record; discrepancy functions are shared between '
               'elfi and the oracle (their correctness is C12).')
