"""C11 - Bayesian optimisation simulates only inside bounds and trains on what it ran.

(A) acquisition level: every acquisition class on generated surrogates - shape and bounds of
acquire(n, t); (B) BO level: a recording simulator and a schedule-owning client - acquired
points in bounds, evidence = precomputed rows followed by the consumed batches in index order,
identical for every schedule / max_parallel_batches; (C) acquisition gradients vs extrapolated
central differences of the acquisition functions.
"""

import logging
import warnings

import numpy as np
from hypothesis import strategies as st

from .. import schedclient
from ..core import CaseResult, Part, Violation, must_not_raise, soft, time_limit
from ..runner import Check
from . import c10

P = 'C11'
SIMLOG = []


def _quiet():
    c10._quiet()
    warnings.simplefilter('ignore')


# ------------------------------------------------------------------ (A) acquisition level

def strat_acq(tier):
    classes = ['LCBSC', 'LCBSC', 'MaxVar', 'RandMaxVar-metropolis', 'RandMaxVar-nuts', 'ExpIntVar-grid', 'Uniform']
    if tier == 'thorough':
        classes.append('ExpIntVar-importance')
    return st.integers(1, 3).flatmap(lambda d: st.fixed_dictionaries({
        'd': st.just(d),
        'bounds': st.lists(st.tuples(st.sampled_from([-5.0, -1.0, 0.0, 0.5, 3.0]), st.sampled_from([0.5, 1.0, 2.0, 6.0])), min_size=d, max_size=d),
        'n_ev': st.integers(6, 25), 'chunks': st.just(1), 'data_seed': st.integers(0, 10 ** 6),
        'optimize': st.sampled_from(['last', 'none']), 'max_opt_iters': st.just(20),
        'func': st.sampled_from(['bowl', 'sine', 'steep', 'edge']), 'noise': st.sampled_from([0.01, 0.1, 0.5]),
        'prior': st.sampled_from(['uniform', 'normal', 'wide-normal']),
        'cls': st.sampled_from(classes),
        'acq_noise': st.sampled_from(['none', 'zero', 'scalar', 'big-scalar', 'dict-with-zero']),
        'n': st.integers(1, 8), 't': st.integers(0, 5), 'seed': st.integers(0, 2 ** 31 - 1),
        'rmv': st.tuples(st.sampled_from([10, 20, 50]), st.sampled_from([None, 2, 5])),
        'bounds_keys_reversed': st.booleans(),
    }))


def _f(kind, U):
    if kind == 'edge':        # optimum on a face of the box
        return 1.0 + 3.0 * U[:, 0] + 0.5 * ((U - 0.3) ** 2).sum(axis=1)
    return c10._f(kind, U)


def _gp(case):
    import elfi
    from elfi.methods.bo.gpy_regression import GPyRegression
    from elfi.model.extensions import ModelPrior
    d = case['d']
    names = sorted(c10.NAMES[:d])
    lo = np.array([b[0] for b in case['bounds']])
    w = np.array([b[1] for b in case['bounds']])
    bounds = {n: (float(lo[i]), float(lo[i] + w[i])) for i, n in enumerate(names)}
    if case.get('bounds_keys_reversed'):
        bounds = dict(reversed(list(bounds.items())))      # the same bounds, written down in another key order
    rs = np.random.RandomState(case['data_seed'])
    gp = GPyRegression(names, bounds=bounds, max_opt_iters=case['max_opt_iters'])
    m = elfi.ElfiModel(name='c11model')
    for i, n in enumerate(names):
        if case['prior'] == 'uniform':
            elfi.Prior('uniform', float(lo[i]), float(w[i]), model=m, name=n)
        elif case['prior'] == 'normal':
            elfi.Prior('norm', float(lo[i] + w[i] / 2), float(w[i] / 2), model=m, name=n)
        else:
            elfi.Prior('norm', float(lo[i] + w[i] / 2), float(3 * w[i]), model=m, name=n)
    prior = ModelPrior(m)
    U = rs.rand(case['n_ev'], d)
    y = _f(case['func'], U) + case['noise'] * rs.randn(case['n_ev'])
    gp.update(lo + U * w, y, optimize=(case['optimize'] == 'last'))
    return gp, prior, names, lo, w


def _make_acq(case, gp, prior, names):
    from elfi.methods.bo import acquisition as A
    nv = {'none': None, 'zero': 0, 'scalar': 0.05, 'big-scalar': 4.0,
          'dict-with-zero': {n: (0.0 if i == 0 else 0.3) for i, n in enumerate(names)}}[case['acq_noise']]
    c = case['cls']
    kw = dict(prior=prior, noise_var=nv, seed=case['seed'])
    if c == 'LCBSC':
        return A.LCBSC(gp, n_inits=4, max_opt_iters=50, **kw)
    if c == 'MaxVar':
        return A.MaxVar(model=gp, quantile_eps=0.1, n_inits=4, max_opt_iters=50, **kw)
    if c.startswith('RandMaxVar'):
        ns, wu = case['rmv']
        return A.RandMaxVar(model=gp, quantile_eps=0.1, sampler=c.split('-')[1], n_samples=ns, warmup=wu, n_inits=3, max_opt_iters=30, **kw)
    if c == 'ExpIntVar-grid':
        return A.ExpIntVar(model=gp, quantile_eps=0.1, integration='grid', d_grid=0.34, n_inits=2, max_opt_iters=8, **kw)
    if c == 'ExpIntVar-importance':
        return A.ExpIntVar(model=gp, quantile_eps=0.1, integration='importance', n_samples_imp=20, iter_imp=2, sampler='metropolis', n_samples=60,
                           n_inits=2, max_opt_iters=8, **kw)
    return A.UniformAcquisition(gp, **kw)


def run_acq(case):
    _quiet()
    known = []
    ctx = 'case=%r' % (case,)
    with must_not_raise(P, 'building the surrogate / acquisition; ' + ctx):
        gp, prior, names, lo, w = _gp(case)
        acq = _make_acq(case, gp, prior, names)
    hi = lo + w
    n, t = case['n'], case['t']
    d = case['d']
    rmv = case['cls'].startswith('RandMaxVar')
    if rmv:
        ns, wu = case['rmv']
        avail = ns - (wu or ns // 2)
        if n > ns:
            return CaseResult(['more-points-than-chain'], None)        # documented refusal (ValueError)
    try:
        with np.errstate(all='ignore'):
            with time_limit(600, 'C11:acquire-hangs', 'acquire'):
                if case['cls'] == 'ExpIntVar-importance' and t > 0:
                    acq.acquire(n, t=0)        # acquisition indices start at 0 (the importance points are drawn there)
                x = acq.acquire(n, t=t)
    except ValueError as e:
        if rmv and n > avail:
            return CaseResult(['randmaxvar-refuses-n-beyond-chain'], None)
        if rmv and ('Cannot find acceptable stepsize' in str(e) or 'Bad initialization' in str(e)):
            # NUTS' documented refusal of a starting point (very peaked acquisition density): counted, not judged
            return CaseResult(['nuts-refused-start'], None)
        with must_not_raise(P, 'acquire(%d, t=%d); %s' % (n, t, ctx)):
            raise
        raise
    except SystemExit:
        return CaseResult(['no-valid-initial-point'], None)
    except Exception:
        with must_not_raise(P, 'acquire(%d, t=%d); %s' % (n, t, ctx)):
            raise
        raise
    x = np.asarray(x, dtype=float)
    if x.shape != (n, d):
        sig = 'C11:acquire-count'
        raise Violation(sig, '%s.acquire(%d) returned shape %r, expected (%d, %d); %s' % (case['cls'], n, x.shape, n, d, ctx))
    tol = 1e-9 * w
    if np.any(x < lo - tol) or np.any(x > hi + tol) or not np.all(np.isfinite(x)):
        bad = x[np.any((x < lo - tol) | (x > hi + tol), axis=1)][0]
        raise Violation('C11:acquired-point-outside-bounds', '%s.acquire returned %r outside the bounds %r..%r; %s' % (case['cls'], bad.tolist(), lo.tolist(), hi.tolist(), ctx))
    labels = ['cls=' + case['cls'], 'noise=' + case['acq_noise'], 'prior=' + case['prior']]
    on_face = bool(np.any(np.abs(x - lo) < 1e-6 * w) or np.any(np.abs(x - hi) < 1e-6 * w))
    clipped = case['acq_noise'] in ('scalar', 'big-scalar', 'dict-with-zero') and (case['func'] == 'edge' or on_face or case['acq_noise'] == 'big-scalar')
    return CaseResult(labels, True if (clipped or case['prior'] == 'wide-normal') else None, known)


# ------------------------------------------------------------------ (B) BO level

def bo_sim(*params, batch_size=1, random_state=None, meta=None):
    P_ = np.column_stack([np.asarray(p, dtype=float) for p in params])
    SIMLOG.append((meta['batch_index'], P_.copy()))
    return ((P_ - 0.3) ** 2).sum(axis=1) + 0.05 * random_state.randn(batch_size)


def ident(s):
    return s


def strat_bo(tier):
    return st.fixed_dictionaries({
        'd': st.integers(1, 2), 'bs': st.integers(1, 3), 'bpa': st.sampled_from([None, 1, 2, 3]),
        'init': st.sampled_from(['zero', 'count', 'count', 'precomputed', 'odd-count']),
        'update_interval': st.integers(1, 5), 'extra': st.integers(2, 8),
        'mpb': st.integers(1, 4), 'cores': st.integers(1, 3),
        'prior': st.sampled_from(['uniform', 'wide-normal']),
        'acq_noise': st.sampled_from([0, 0.05, 1.0]),
        'seed': st.integers(0, 2 ** 31 - 1),
        'schedule': st.lists(st.integers(0, 11), min_size=0, max_size=30), 'lag': st.booleans(),
    })


def _bo_model(case):
    import elfi
    d = case['d']
    names = ['a', 'b'][:d]
    m = elfi.ElfiModel(name='c11bo')
    ps = []
    for n in names:
        if case['prior'] == 'uniform':
            ps.append(elfi.Prior('uniform', -1.0, 2.0, model=m, name=n))
        else:
            ps.append(elfi.Prior('norm', 0.0, 3.0, model=m, name=n))
    S = elfi.Simulator(bo_sim, *ps, observed=np.zeros(1), model=m, name='S')
    S.uses_meta = True
    elfi.Operation(ident, S, model=m, name='target')
    return m, names


def _run_bo(case, client, mpb):
    import elfi
    del SIMLOG[:]
    schedclient.install(client)
    try:
        m, names = _bo_model(case)
        bs = case['bs']
        bounds = {n: (-1.0, 1.0) for n in names}
        if case['init'] == 'zero':
            init = 0
        elif case['init'] == 'count':
            init = 2 * bs
        elif case['init'] == 'odd-count':
            init = 2 * bs + (1 if bs > 1 else 0)          # not a multiple of the batch size: rounded up by elfi
        else:
            rs = np.random.RandomState(case['seed'] % 1000)
            pre = {n: rs.uniform(-1, 1, size=5) for n in names}
            pre['target'] = ((np.column_stack([pre[n] for n in names]) - 0.3) ** 2).sum(axis=1)
            init = pre
        bo = elfi.BayesianOptimization(m['target'], bounds=bounds, initial_evidence=init, update_interval=case['update_interval'],
                                       acq_noise_var=case['acq_noise'], batch_size=bs,
                                       # (None would mean max_parallel_batches, which differs between the compared runs)
                                       batches_per_acquisition=case['bpa'] or case['mpb'],
                                       seed=case['seed'], max_parallel_batches=mpb)
        n_init = bo.n_initial_evidence
        n_evidence = n_init + case['extra'] * bs           # `extra` further batches
        with time_limit(900, 'C11:bo-hangs', 'BayesianOptimization.infer'):
            bo.infer(n_evidence, bar=False)
        pre_rows = None
        if isinstance(init, dict):
            pre_rows = (np.column_stack([init[n] for n in names]), np.asarray(init['target']))
        return bo, names, pre_rows, n_init
    finally:
        schedclient.restore_native()


def run_bo(case):
    import elfi.clients.native as native
    _quiet()
    ctx = 'case=%r' % (case,)
    with must_not_raise(P, 'sequential reference run; ' + ctx):
        with np.errstate(all='ignore'):
            ref, names, pre_rows, n_init = _run_bo(case, native.Client(), 1)
    refX, refY = np.array(ref.target_model.X), np.array(ref.target_model.Y)
    client = schedclient.SchedClient(case['schedule'], num_cores=case['cores'], lag=case['lag'])
    with must_not_raise(P, 'scheduled run; ' + ctx):
        with np.errstate(all='ignore'):
            bo, names, pre_rows, n_init = _run_bo(case, client, case['mpb'])
    log = sorted(SIMLOG, key=lambda r: r[0])
    consumed = client.consumed()
    B = len(consumed)
    bs = case['bs']
    X, Y = np.array(bo.target_model.X), np.array(bo.target_model.Y)
    if consumed != list(range(B)):
        raise Violation('C11:not-consumed-in-index-order-once', 'batches consumed in order %r; %s' % (consumed, ctx))
    # evidence = precomputed rows, then the (parameters, target) pairs of the consumed batches in index order
    rows = []
    by_index = {}
    for bi, P_ in SIMLOG:
        by_index[bi] = P_          # a re-submitted index is consumed from its latest submission
    n_pre = 0 if pre_rows is None else len(pre_rows[0])
    expX = [] if pre_rows is None else [pre_rows[0]]
    for bi in range(B):
        if bi not in by_index:
            raise Violation('C11:consumed-batch-never-simulated', 'batch %d was consumed but the simulator never ran it; %s' % (bi, ctx))
        expX.append(by_index[bi])
    expX = np.vstack(expX)
    if X.shape != expX.shape or not np.array_equal(X, expX):
        raise Violation('C11:evidence-is-not-what-was-simulated', 'target_model.X (%d rows) is not the precomputed evidence (%d rows) followed by the parameters of the %d consumed batches in index order; %s'
                        % (len(X), n_pre, B, ctx))
    if pre_rows is not None and not np.array_equal(Y[:n_pre, 0], pre_rows[1]):
        raise Violation('C11:precomputed-evidence-changed', 'precomputed target values changed; %s' % ctx)
    if bo.n_evidence != len(X) or bo.state['n_evidence'] != n_pre + B * bs:
        raise Violation('C11:n_evidence', 'n_evidence=%r, evidence rows %d, precomputed %d + %d batches x %d; %s' % (bo.n_evidence, len(X), n_pre, B, bs, ctx))
    # acquired points are inside the bounds
    n_init_batches = (n_init - n_pre) // bs
    outside = []
    for bi in range(B):
        P_ = by_index[bi]
        if bi >= n_init_batches and (np.any(P_ < -1.0 - 1e-9) or np.any(P_ > 1.0 + 1e-9)):
            outside.append((bi, P_.tolist()))
    if outside:
        raise Violation('C11:simulated-outside-bounds', 'acquisition batches simulated outside the bounds [-1, 1]: %r (first %d batches are initial evidence); %s' % (outside[:3], n_init_batches, ctx))
    # same fitted evidence for every schedule
    if X.shape != refX.shape or not np.array_equal(X, refX) or not np.array_equal(Y, refY):
        k = None
        if X.shape == refX.shape:
            k = int(np.flatnonzero(np.any(X != refX, axis=1) | (Y[:, 0] != refY[:, 0]))[0])
        raise Violation('C11:schedule-dependent-evidence', 'fitted evidence differs from the sequential run (first differing row %r: %r vs %r); max_parallel_batches=%d schedule=%r; %s'
                        % (k, None if k is None else X[k].tolist(), None if k is None else refX[k].tolist(), case['mpb'], case['schedule'], ctx))
    if client.tasks:
        raise Violation('C11:tasks-left-in-client', '%d tasks left in the client; %s' % (len(client.tasks), ctx))
    n_acq_batches = B - n_init_batches
    bpa = case['bpa'] or case['mpb']
    labels = ['init=' + case['init'], 'bs=%d' % bs]
    speculative = client.max_outstanding >= 2
    out_of_order = any(b is not None and a is not None and b < a for a, b in zip(client.executed_order, client.executed_order[1:]))
    if speculative:
        labels.append('speculative')
    if out_of_order:
        labels.append('out-of-order-execution')
    multi = n_acq_batches > bpa                 # at least two acquisitions
    if multi:
        labels.append('>=2-acquisitions')
    return CaseResult(labels, True if (multi and speculative) else None)


# ------------------------------------------------------------------ (C) gradients

def strat_grad(tier):
    return st.integers(1, 3).flatmap(lambda d: st.fixed_dictionaries({
        'd': st.just(d),
        'bounds': st.lists(st.tuples(st.sampled_from([-5.0, -1.0, 0.0, 3.0]), st.sampled_from([1.0, 2.0, 6.0])), min_size=d, max_size=d),
        'n_ev': st.integers(6, 25), 'chunks': st.just(1), 'data_seed': st.integers(0, 10 ** 6),
        'optimize': st.sampled_from(['last', 'none']), 'max_opt_iters': st.just(20),
        'func': st.sampled_from(['bowl', 'sine', 'steep']), 'noise': st.sampled_from([0.05, 0.2, 0.5]),
        'prior': st.sampled_from(['uniform', 'normal']), 'cls': st.sampled_from(['LCBSC', 'MaxVar']),
        'acq_noise': st.just('none'), 't': st.integers(1, 6), 'seed': st.integers(0, 1000), 'rmv': st.just((10, None)), 'n': st.just(1),
    }))


def run_grad(case):
    _quiet()
    ctx = 'case=%r' % (case,)
    with must_not_raise(P, 'building; ' + ctx):
        gp, prior, names, lo, w = _gp(case)
        acq = _make_acq(case, gp, prior, names)
        if case['cls'] == 'MaxVar':
            acq.eps = np.percentile(gp.Y, 10)
    d = case['d']
    rs = np.random.RandomState(case['data_seed'] + 3)
    checked = 0
    for _ in range(4):
        x = lo + (0.05 + 0.9 * rs.rand(d)) * w
        t = case['t']

        def f(xx):
            with np.errstate(all='ignore'):
                return float(np.reshape(acq.evaluate(xx[None, :], t), -1)[0])
        with must_not_raise(P, 'evaluate / evaluate_gradient; ' + ctx):
            with np.errstate(all='ignore'):
                g = np.reshape(acq.evaluate_gradient(x[None, :], t), -1)
            f0 = f(x)
        gref = np.zeros(d)
        fd_err = np.zeros(d)
        for j in range(d):
            h = 1e-4 * w[j]
            e = np.zeros(d)
            e[j] = h
            d1 = (f(x + e) - f(x - e)) / (2 * h)
            d2 = (f(x + e / 2) - f(x - e / 2)) / h
            gref[j] = (4 * d2 - d1) / 3
            fd_err[j] = abs(d2 - d1)          # how much the finite difference itself moves between the two step sizes
        if not (np.isfinite(f0) and np.all(np.isfinite(gref)) and np.all(np.isfinite(g))):
            continue
        if case['cls'] == 'MaxVar':
            # MaxVar = prior^2 * (skew-normal cdf - normal cdf^2): where that difference is below ~1e-8 it is dominated by the
            # absolute accuracy of scipy's skew-normal cdf, so `evaluate` itself (and its finite differences) is not a reference
            with np.errstate(all='ignore'):
                pr = float(np.reshape(prior.pdf(x[None, :] if d > 1 else x), -1)[0])
            if pr <= 0 or f0 / pr ** 2 < 1e-8:
                continue
        scale = np.abs(gref).max()
        if scale < 1e-6 * max(abs(f0), 1e-12) / w.min():
            continue                          # |gradient| negligible: finite differences dominated by round-off
        if np.any(fd_err > 0.05 * scale):
            continue                          # the finite-difference reference is not trustworthy here (strong curvature)
        if not np.all(np.abs(g - gref) <= 1e-3 * np.abs(gref) + 1e-3 * scale + 10 * fd_err):
            raise Violation('C11:acquisition-gradient', '%s.evaluate_gradient(%r, t=%d) = %r, derivative of evaluate = %r; %s' % (case['cls'], x.tolist(), t, g.tolist(), gref.tolist(), ctx))
        checked += 1
    return CaseResult(['cls=' + case['cls'], 'd=%d' % d], True if checked else None)


CHECK = Check(
    P, 'exploration',
    rule=('acquire: surrogates as in C10 (1-3 dims, asymmetric bounds given as a dict in either key order, 6-25 evidence points, objective shapes incl. an optimum on a face) x class in '
          '{LCBSC, MaxVar, RandMaxVar(metropolis|nuts), ExpIntVar(grid; importance in the thorough tier), Uniform} x noise in {None, 0, scalar, large '
          'scalar, per-parameter dict with a zero} x prior in {uniform on bounds, normal, normal 3x wider than the bounds} x n 1-8 x t 0-5; BO: a '
          'recording simulator, batch_size 1-3, batches_per_acquisition None/1-3, initial evidence 0 / count / odd count / precomputed dict, '
          'update_interval 1-5, 2-8 further batches, max_parallel_batches 1-4 and a generated worker schedule, compared with the '
          'sequential run; gradients: LCBSC and MaxVar at interior points vs extrapolated central differences. Non-trivial: noise > 0 with '
          'clipping/truncation active or a prior wider than the bounds (acquire); >= 2 acquisitions of >= 2 batches with a speculative '
          'schedule (BO); a gradient actually compared (gradients).'),
    parts=[Part('acquire', run_acq, strategy=strat_acq, examples={'quick': 192, 'thorough': 3200}, shards={'quick': 16, 'thorough': 16}, max_shrink_s=90),
           Part('bo', run_bo, strategy=strat_bo, examples={'quick': 96, 'thorough': 1600}, shards={'quick': 16, 'thorough': 16}, shrink=False),
           Part('gradients', run_grad, strategy=strat_grad, examples={'quick': 96, 'thorough': 3200}, shards={'quick': 8, 'thorough': 16})],
    assumptions=['initial evidence drawn from a prior wider than the bounds is not "acquired" and is not required to be inside',
                 'synchronous acquisition (async_acq=False)',
                 'RandMaxVar may refuse n larger than its usable chain (ValueError) or fail to find an initial point (SystemExit): counted, not judged'],
    design_ref='DESIGN.md section 4, C11',
    technique='Hypothesis-generated surrogates/configurations/schedules; bounds and count oracles, recording simulator + '
              'schedule-owning client differential vs the sequential run, finite-difference gradients',
    level_text='Exploration: every acquisition class is driven on generated surrogates and must return exactly n in-bounds points; whole BO runs '
               'are traced through a recording simulator and a schedule-owning client (evidence = simulated rows in index order, identical '
               'for every schedule); acquisition gradients are compared with extrapolated central differences.',
    level_note='GP-based cases are expensive; the quick tier runs ~100 acquisitions and ~30 BO pairs.')
