"""C03 - compiled execution equals the dataflow meaning of the user's graph.

Generator: random acyclic graphs over Constant/Operation/Prior/Simulator/Summary/Discrepancy with
symbolic operations (verif.termops).  Oracle: a small reference evaluator over the *description*
of the graph (never over elfi's nets) giving value(n), observed(n), 'is rejected' and the exact
number of times every operation must run.
"""

from collections import Counter
from functools import partial

from hypothesis import strategies as st

from .. import termops
from ..core import CaseResult, Part, Violation, must_not_raise
from ..runner import Check

P = 'C03'
NAMES = ['a', 'b', 'c', 'd', 'e', 'f', 'g', 'h', 'k', 'A1', 'Zz', 'm_2', 'x9', 'B', 'sim', 'n10', 'n2']
KWNAMES = ['kw', 'alpha', 'zeta']
KINDS = ['const', 'op', 'op', 'prior', 'sim', 'sim', 'summary', 'summary', 'disc']


@st.composite
def graphs(draw, max_nodes=10):
    n = draw(st.integers(2, max_nodes))
    names = draw(st.permutations(NAMES))[:n]
    nodes = []
    for i, nm in enumerate(names):
        prev = [x['name'] for x in nodes]
        kind = draw(st.sampled_from(KINDS if prev else ['const', 'prior', 'sim', 'op']))
        maxk = min(3, len(prev))
        k = 0 if kind == 'const' else draw(st.integers(1 if kind in ('summary', 'disc') else 0, maxk))
        pool = prev
        if kind in ('summary', 'disc'):
            # realistic shape: summaries/discrepancies mostly sit on observable nodes (keeps rejected graphs a minority)
            observable = [x['name'] for x in nodes if x['kind'] in ('sim', 'summary')]
            if observable and draw(st.integers(0, 9)) < 8:
                pool = observable
                k = max(1, min(k, len(pool)))
        idx = draw(st.lists(st.integers(0, len(pool) - 1), min_size=k, max_size=k, unique=True)) if k else []
        pos = [['node', pool[j]] for j in idx]
        if kind != 'const' and draw(st.integers(0, 9)) < 3:
            at = draw(st.integers(0, len(pos)))
            pos.insert(at, ['raw', draw(st.integers(0, 99))])
        if kind in ('op', 'sim', 'summary', 'disc') and draw(st.integers(0, 24)) == 0:
            # occasionally a node with many (11-14) positional parents: positions with two digits
            while len(pos) < draw(st.integers(11, 14)):
                pos.insert(draw(st.integers(0, len(pos))), ['raw', 100 + len(pos)])
        named = {}
        if kind in ('op', 'sim', 'summary') and prev and draw(st.integers(0, 9)) < 3:
            cands = [p for p in prev if ['node', p] not in pos]
            if cands:
                kws = draw(st.lists(st.sampled_from(KWNAMES), min_size=1, max_size=min(2, len(cands)), unique=True))
                chosen = draw(st.lists(st.sampled_from(cands), min_size=len(kws), max_size=len(kws), unique=True))
                named = dict(zip(kws, chosen))
        nodes.append({
            'name': nm, 'kind': kind, 'pos': pos, 'named': named,
            'uses_meta': kind in ('op', 'sim', 'summary', 'disc') and draw(st.integers(0, 9)) < 3,
            'uses_bs': kind in ('op', 'summary') and draw(st.integers(0, 9)) < 3,
            'observed': (kind == 'sim' and draw(st.integers(0, 9)) < 8) or (kind == 'summary' and draw(st.integers(0, 9)) < 2),
            'size': draw(st.sampled_from([None, None, 1, 3])) if kind == 'prior' else None,
            'value': draw(st.integers(0, 999)),
        })
    return nodes


def strat(tier):
    return st.fixed_dictionaries({
        'nodes': graphs(10 if tier == 'quick' else 12),
        'bs': st.integers(1, 4),
        'seed': st.one_of(st.integers(0, 1000), st.integers(0, 2 ** 32 - 1)),
        'req': st.lists(st.integers(0, 10 ** 6), min_size=1, max_size=6),
        'supplied': st.lists(st.integers(0, 10 ** 6), min_size=0, max_size=3),
        'sup_prob': st.integers(0, 7),
        'via_node': st.sampled_from([False, False, True]),
        # how the supplied values reach the run: generate(with_values=...) or the batch override of BatchHandler.submit
        # (the path SMC / BO use for proposed parameters)
        'supply_via': st.sampled_from(['with_values', 'submit-override', 'submit-override']),
        # number of batches loaded and submitted before the first one is executed (the native client evaluates lazily)
        'inflight': st.sampled_from([1, 1, 1, 2, 3]),
        # submit-override only: one ordinary batch (nothing supplied) goes through the SAME handler first
        'earlier_batch': st.sampled_from([False, True, True]),
        'empty_request': st.sampled_from([False, False, False, True]),
    })


# ------------------------------------------------------------------ building the elfi model

def build(nodes, name='c03model'):
    import elfi
    m = elfi.ElfiModel(name=name)
    for nd in nodes:
        args = [m[p[1]] if p[0] == 'node' else p[1] for p in nd['pos']]
        nm = nd['name']
        kind = nd['kind']
        if kind == 'const':
            elfi.Constant(('C', nd['value']), model=m, name=nm)
        elif kind == 'op':
            elfi.Operation(partial(termops.op, nm), *args, model=m, name=nm)
        elif kind == 'prior':
            elfi.Prior(termops.TermDist(nm), *args, model=m, name=nm, size=nd['size'])
        elif kind == 'sim':
            elfi.Simulator(partial(termops.op, nm), *args, model=m, name=nm,
                           observed=('OBS', nm) if nd['observed'] else None)
        elif kind == 'summary':
            elfi.Summary(partial(termops.op, nm), *args, model=m, name=nm,
                         observed=('OBS', nm) if nd['observed'] else None)
        elif kind == 'disc':
            elfi.Discrepancy(partial(termops.op, nm), *args, model=m, name=nm)
        for kw, p in sorted(nd['named'].items()):
            m.add_edge(p, nm, kw)
        if nd['uses_meta']:
            m[nm].uses_meta = True
        if nd['uses_bs']:
            m.get_node(nm)['attr_dict']['_uses_batch_size'] = True
    return m


# ------------------------------------------------------------------ reference evaluator

class Undefined(Exception):
    pass


class Ref(object):
    def __init__(self, nodes, bs, seed, supplied, model_name, batch_index=0):
        self.batch_index = batch_index
        self.n = {nd['name']: nd for nd in nodes}
        self.bs = bs
        self.seed = seed
        self.sup = supplied
        self.model_name = model_name
        self.expected = Counter()
        self.memo = {}
        self.omemo = {}

    def stoch(self, nm):
        return self.n[nm]['kind'] in ('prior', 'sim')

    def observable(self, nm):
        return self.n[nm]['kind'] in ('sim', 'summary')

    def node_parents(self, nd, positional_only=False):
        ps = [p[1] for p in nd['pos'] if p[0] == 'node']
        if not positional_only:
            ps += list(nd['named'].values())
        return ps

    def argval(self, p, observed=False):
        if p[0] == 'raw':
            return p[1]
        return self.obs(p[1]) if (observed and self.observable(p[1])) else self.val(p[1])

    def val(self, nm):
        if nm in self.memo:
            return self.memo[nm]
        nd = self.n[nm]
        if nm in self.sup:
            v = self.sup[nm]
        elif nd['kind'] == 'const':
            v = ('C', nd['value'])
        else:
            args = tuple(self.argval(p) for p in nd['pos'])
            if nd['kind'] == 'prior':
                size = (self.bs,) if nd['size'] is None else (self.bs, nd['size'])
                v = ('T', nm, args, (('random_state', 'RS'), ('size', size)))
            else:
                kw = {k: self.val(p) for k, p in nd['named'].items()}
                if nd['kind'] == 'sim':
                    kw['batch_size'] = self.bs
                    kw['random_state'] = 'RS'
                if nd['uses_bs']:
                    kw['batch_size'] = self.bs
                if nd['uses_meta']:
                    kw['meta'] = ('meta', self.batch_index, self.seed, self.model_name)
                if nd['kind'] == 'disc':
                    kw['observed'] = tuple(self.argval(p, observed=True) for p in nd['pos'])
                v = ('T', nm, args, tuple(sorted(kw.items())))
            self.expected[nm] += 1
        self.memo[nm] = v
        return v

    def obs(self, nm):
        if nm in self.omemo:
            return self.omemo[nm]
        nd = self.n[nm]
        if nd['observed']:
            v = ('OBS', nm)
        elif nd['kind'] == 'sim':
            raise Undefined(nm)
        else:  # summary computed from its parents' observed twins
            args = tuple(self.argval(p, observed=True) for p in nd['pos'])
            # the statement defines the twin as the operation applied to the parents' twins and nothing else:
            # batch_size / meta declarations concern the simulated node only (elfi does not pass them to twins)
            kw = {k: self.argval(['node', p], observed=True) for k, p in nd['named'].items()}
            v = ('T', nm, args, tuple(sorted(kw.items())))
            self.expected[nm] += 1
        self.omemo[nm] = v
        return v

    # -- structural predicates (independent of supplied values, like the compile step)
    def dep_val(self, x):
        if self.stoch(x):
            return True
        return any(self.dep_val(p) for p in self.node_parents(self.n[x]))

    def dep_obs(self, x):
        nd = self.n[x]
        if nd['observed'] or nd['kind'] == 'sim':
            return False
        return any((self.dep_obs(p) if self.observable(p) else self.dep_val(p)) for p in self.node_parents(nd))

    def rejected(self):
        for nm, nd in self.n.items():
            if self.observable(nm) and self.dep_obs(nm):
                return True
            if nd['kind'] == 'disc' and any((self.dep_obs(p) if self.observable(p) else self.dep_val(p))
                                             for p in self.node_parents(nd, positional_only=True)):
                return True
        return False

    def defined(self, nm, twin=False):
        probe = Ref(list(self.n.values()), self.bs, self.seed, self.sup, self.model_name)
        try:
            probe.obs(nm) if twin else probe.val(nm)
            return True
        except Undefined:
            return False

    def ancestors(self, nm):
        out = set()
        stack = [nm]
        while stack:
            x = stack.pop()
            for p in self.node_parents(self.n[x]):
                if p not in out:
                    out.add(p)
                    stack.append(p)
        return out


def run_case(case):
    import elfi
    from elfi.utils import observed_name
    nodes = case['nodes']
    names = [nd['name'] for nd in nodes]
    bs, seed = case['bs'], case['seed']
    termops.reset()
    with must_not_raise(P, 'building the model'):
        m = build(nodes)
    # supplied values
    supplied = {}
    if case['sup_prob'] < 4:
        kind_of = {nd['name']: nd['kind'] for nd in nodes}
        # nodes with at least one parent that has an operation of its own: giving such a node makes its private ancestors unnecessary
        deep = [nd['name'] for nd in nodes if nd['kind'] != 'const' and
                any(kind_of.get(p[1]) not in (None, 'const') for p in nd['pos'] if p[0] == 'node') or
                any(kind_of.get(p) not in (None, 'const') for p in nd['named'].values())]
        for j, s in enumerate(case['supplied']):
            cands = deep if (j == 0 and deep and case.get('supply_via') == 'submit-override') else names
            nm = cands[s % len(cands)]
            supplied[nm] = ('SUP', nm)
    via_node = case['via_node'] and len(case['req']) == 1
    ref_seed = 'global' if via_node else seed
    ref = Ref(nodes, bs, ref_seed, supplied, m.name)
    rejected = ref.rejected()
    # requestable items: defined node values and defined observed twins
    items = [('val', nm) for nm in names if ref.defined(nm)]
    items += [('obs', nm) for nm in names if ref.observable(nm) and ref.defined(nm, twin=True)]
    labels = []
    if rejected:
        req = [('val', nm) for nm in names]
    else:
        req = []
        for r in case['req']:
            # half of the requests aim at discrepancies / observed twins when there are any
            special = [it for it in items if it[0] == 'obs' or ref.n[it[1]]['kind'] == 'disc']
            src = special if (special and r % 2 == 0) else items
            it = src[(r // 2) % len(src)] if src else None
            if it is not None and it not in req:
                req.append(it)
        if not req:
            return CaseResult(['nothing-requestable'], None)
    if via_node and req[0][0] != 'val':
        via_node = False
        ref.seed = seed
    req_names = [nm if kind == 'val' else observed_name(nm) for kind, nm in req]
    termops.reset()
    if rejected:
        try:
            got = m.generate(bs, req_names, with_values=supplied or None, seed=seed)
        except ValueError:
            if sum(termops.CALLS.values()):
                raise Violation('C03:rejected-but-ran', 'graph was rejected but operations ran: %r' % dict(termops.CALLS))
            return CaseResult(['rejected-graph'], ('rejected', nodes))
        except Exception as e:
            raise Violation('C03:rejected-with-wrong-exception', 'graph with stochastic observed data raised %s: %s' % (type(e).__name__, str(e)[:200]))
        raise Violation('C03:stochastic-observed-not-rejected',
                        'observed data of the graph depends on a stochastic node but generate() evaluated it: %r' % (nodes,))
    exp = {}
    for (kind, nm), rn in zip(req, req_names):
        exp[rn] = ref.val(nm) if kind == 'val' else ref.obs(nm)
    # the override path addresses nodes of the compiled (reduced) net: only nodes the request depends on can be overridden
    needed_nodes = set(nm for kind, nm in req if kind == 'val')
    for kind, nm in req:
        if kind == 'val':
            needed_nodes |= ref.ancestors(nm)
    eff = {nm: v for nm, v in supplied.items() if ref.n[nm]['kind'] != 'const' and nm in needed_nodes}
    override = bool(case.get('supply_via') == 'submit-override' and eff and not via_node)
    if override and eff != supplied:
        # only the supplied nodes the request depends on can be addressed; the others never mattered for this request
        supplied = eff
        ref = Ref(nodes, bs, ref_seed, supplied, m.name)
        exp = {rn: (ref.val(nm) if kind == 'val' else ref.obs(nm)) for (kind, nm), rn in zip(req, req_names)}
    with must_not_raise(P, 'generate(%d, %r, with_values=%r%s)' % (bs, req_names, sorted(supplied), ' via submit override' if override else '')):
        if via_node:
            got = {req_names[0]: m[req_names[0]].generate(bs, with_values=supplied or None)}
        elif override:
            import elfi.client
            from elfi.model.elfi_model import ComputationContext
            out_names = list(req_names)
            if case.get('earlier_batch'):
                # as every caller inside elfi does (SMC, BOLFI: the given parameters are outputs of the handler), the nodes that
                # will be given later are among the requested outputs.  (Giving a NON-output node after an un-supplied batch on the
                # same handler re-uses the execution order cached for the first batch and runs the given node's ancestors; that
                # is outside "nodes given by with_values" and is listed in DESIGN.md section 9 under "observed, not acted on".)
                out_names += [nm for nm in sorted(supplied) if nm not in out_names]
            h = elfi.client.BatchHandler(m, ComputationContext(batch_size=bs, seed=seed), output_names=out_names)
            if case.get('earlier_batch'):
                # a node computed in an earlier batch and GIVEN in a later one (what SMC / BOLFI do with parameters): the later
                # batch is judged; its reference is the same graph at batch index 1 with the values supplied
                h.submit()
                h.wait_next()
                termops.reset()
                ref = Ref(nodes, bs, ref_seed, supplied, m.name, batch_index=1)
                exp = {rn: (ref.val(nm) if kind == 'val' else ref.obs(nm)) for (kind, nm), rn in zip(req, req_names)}
                labels.append('supplied-after-an-unsupplied-batch')
            h.submit(dict(supplied))
            got, bi = h.wait_next()
            got = {k: got[k] for k in req_names}
            labels.append('supplied-via-submit-override')
        else:
            got = m.generate(bs, req_names, with_values=supplied or None, seed=seed)
    if set(got) != set(req_names):
        raise Violation('C03:output-keys', 'requested %r, got keys %r' % (req_names, sorted(got)))
    for k in req_names:
        g, e = termops.canon(got[k]), termops.canon(exp[k])
        if g != e:
            raise Violation('C03:value-mismatch', 'output %r:\n got      %r\n expected %r\n graph %r' % (k, g, e, nodes))
    calls = {k: v for k, v in termops.CALLS.items() if v}
    if calls != dict(ref.expected):
        extra = {k: (calls.get(k, 0), ref.expected.get(k, 0)) for k in set(calls) | set(ref.expected)
                 if calls.get(k, 0) != ref.expected.get(k, 0)}
        raise Violation('C03:call-counts', 'operations ran (actual, expected) times: %r for request %r with_values %r graph %r'
                        % (extra, req_names, sorted(supplied), nodes))
    # several batches loaded and submitted before the first one executes: every batch must see its own metadata / values
    k = case.get('inflight', 1)
    if k >= 2 and not via_node and not override and not supplied:
        import elfi.client
        from elfi.model.elfi_model import ComputationContext
        termops.reset()
        with must_not_raise(P, '%d batches in flight; request %r' % (k, req_names)):
            h = elfi.client.BatchHandler(m, ComputationContext(batch_size=bs, seed=seed), output_names=list(req_names))
            for _ in range(k):
                h.submit()
            outs = [h.wait_next() for _ in range(k)]
        for (gotb, bi) in outs:
            rb = Ref(nodes, bs, seed, {}, m.name, batch_index=bi)
            for (kind, nm), rn in zip(req, req_names):
                e = termops.canon(rb.val(nm) if kind == 'val' else rb.obs(nm))
                g = termops.canon(gotb[rn])
                if g != e:
                    raise Violation('C03:value-mismatch-with-batches-in-flight',
                                    'batch %d of %d submitted before execution: output %r\n got      %r\n expected %r\n graph %r' % (bi, k, rn, g, e, nodes))
        labels.append('batches-in-flight')
    # the empty subset of outputs: nothing is requested, nothing runs
    if case.get('empty_request') and not via_node:
        termops.reset()
        with must_not_raise(P, 'generate(%d, [], with_values=%r)' % (bs, sorted(supplied))):
            got0 = m.generate(bs, [], with_values=supplied or None, seed=seed)
        ran0 = {k: v for k, v in termops.CALLS.items() if v}
        if dict(got0) != {} or ran0:
            raise Violation('C03:empty-request-evaluates', 'generate with an EMPTY list of outputs returned keys %r and ran %r; graph %r' % (sorted(got0), ran0, nodes))
        labels.append('empty-request')
    # the .observed property of observable nodes
    nobs = 0
    for nm in names:
        if ref.observable(nm) and ref.defined(nm, twin=True) and nobs < 2:
            nobs += 1
            r2 = Ref(nodes, 1, 'global', {}, m.name)
            e = r2.obs(nm)
            termops.reset()
            with must_not_raise(P, '%s.observed' % nm):
                g = m[nm].observed
            if termops.canon(g) != termops.canon(e):
                raise Violation('C03:observed-property', '%s.observed:\n got      %r\n expected %r\n graph %r' % (nm, termops.canon(g), termops.canon(e), nodes))
            calls = {k: v for k, v in termops.CALLS.items() if v}
            if calls != dict(r2.expected):
                raise Violation('C03:observed-property-call-counts', '%s.observed ran %r, expected %r' % (nm, calls, dict(r2.expected)))
    # labels
    if any(nd['named'] for nd in nodes):
        labels.append('named-edges')
    nchildren = Counter(p for nd in nodes for p in ref.node_parents(nd))
    if any(nd['kind'] == 'const' and nchildren[nd['name']] >= 2 for nd in nodes):
        labels.append('shared-constant')
    sims = [nd for nd in nodes if nd['kind'] == 'sim']
    if any(nd['observed'] for nd in sims) and any(not nd['observed'] for nd in sims):
        labels.append('partial-observation')
    twin_req = any(kind == 'obs' for kind, _ in req)
    disc_req = any(ref.n[nm]['kind'] == 'disc' and nm not in supplied for kind, nm in req)
    if twin_req:
        labels.append('twin-requested')
    if disc_req:
        labels.append('disc-requested')
    cut = False
    for s in supplied:
        anc = ref.ancestors(s)
        if anc and any(a not in ref.memo for a in anc if ref.n[a]['kind'] != 'const'):
            cut = True
    if cut:
        labels.append('with_values-cuts-ancestors')
    if via_node:
        labels.append('via-node-generate')
    if any(nd['uses_meta'] for nd in nodes):
        labels.append('meta')
    if any(nd['uses_bs'] for nd in nodes):
        labels.append('declared-batch_size')
    nontrivial = (req_names, sorted(supplied), nodes) if (twin_req or disc_req or cut) else None
    return CaseResult(labels, nontrivial)


CHECK = Check(
    P, 'exploration',
    rule=('Hypothesis-generated acyclic graphs of 2..10 (thorough 12) user nodes over Constant/Operation/Prior/Simulator/Summary/'
          'Discrepancy with positional, raw-constant and named parents, optional meta/batch_size declarations, observations on '
          'simulators and summaries; any subset of defined node values and defined observed twins requested; any subset of nodes '
          'supplied through with_values or through a submit override (optionally after an un-supplied batch on the same handler), 1-3 batches in flight, the empty request; batch sizes 1..4. Every operation returns the symbolic term of its call, compared with a '
          'reference evaluator over the description, including exact per-operation call counts and rejection of graphs whose '
          'observed data depends on a stochastic node. Non-trivial = the request contains an observed twin or a discrepancy, or '
          'with_values cuts off a non-empty ancestor set that then must not run (distinct by hash of request+graph).'),
    parts=[Part('graphs', run_case, strategy=strat, examples={'quick': 2400, 'thorough': 160000})],
    assumptions=['each child has distinct parents (a DiGraph keeps one edge per parent/child pair)',
                 'observed twins that would need an unobserved Simulator are not requested (undefined by the statement)',
                 'discrepancy nodes have positional parents only (the public constructor cannot create others)'],
    design_ref='DESIGN.md section 4, C03',
    technique='Hypothesis-generated graphs with symbolic term operations against an independent reference evaluator '
              '(values, call counts, rejection)',
    level_text='Exploration of the space of small model graphs x requested outputs x supplied values; each case compares every '
               'requested output term and the exact number of runs of every operation with a reference evaluator written from '
               'the statement. Finds any compile/load/execute deviation that shows on graphs of this size; not a proof.',
    level_note='Trusts the 120-line reference evaluator in verif/checks/c03.py and that symbolic terms capture all arguments.')
