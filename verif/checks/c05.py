"""C05 - output pools are transparent: reuse never changes results or re-simulates.

Generator: a history of runs over ONE pool (fill, rerun, rerun needing more batches, remove a
store, replace downstream nodes, close/reopen an on-disk pool, wrong batch_size / seed).
Oracle: the same seeded run without a pool; a call log inside the test-owned operations; pool
contents compared with fresh pool-free computations of every held batch.
"""

import os
import shutil
import tempfile
from functools import partial

import numpy as np
from hypothesis import strategies as st

from .. import models
from ..core import CaseResult, Part, Violation, must_not_raise, soft, time_limit
from ..runner import Check

P = 'C05'
CALLS = []        # (node, batch_index) for every invocation of a logged operation with meta
ORDER = []        # node names of stochastic operations in execution order (first batch of a run)


def reset():
    del CALLS[:]
    del ORDER[:]


def sim(*params, batch_size=1, random_state=None, meta=None, width=1, layout='C'):
    CALLS.append(('S', meta['batch_index']))
    ORDER.append('S')
    p = np.column_stack([np.asarray(x, dtype=float) for x in params]).sum(axis=1)
    out = p[:, None] + random_state.randn(batch_size, width)
    if layout == 'F':
        out = np.asfortranarray(out)          # same numbers, column-major memory (e.g. a simulator returning x.T)
    elif layout == 'strided':
        big = np.zeros((batch_size, 2 * width))
        big[:, ::2] = out
        out = big[:, ::2]                     # a non-contiguous view
    return out if width > 1 else out[:, 0]


def noise_sim(s, batch_size=1, random_state=None, meta=None):
    CALLS.append(('N', meta['batch_index']))
    ORDER.append('N')
    return s + 0.25 * random_state.randn(*np.shape(s))


class LoggedUniform(object):
    """Uniform(0,1) prior that records when it draws."""

    def __init__(self, name):
        self.name_ = name

    def rvs(self, size=None, random_state=None):
        ORDER.append(self.name_)
        return random_state.uniform(size=size)


def rid(batch_size=1, random_state=None, meta=None):
    return meta['batch_index'] * batch_size + np.arange(batch_size)


def summ(s, col=0, factor=1.0, meta=None, name='s'):
    if meta is not None:
        CALLS.append((name, meta['batch_index']))
    return (s if s.ndim == 1 else s[:, col]) * factor


def disc(*s, observed=None, power=1, nsum=1, meta=None):
    if meta is not None:
        CALLS.append(('d', meta['batch_index']))
    sums = np.column_stack(s[:nsum])
    d = (np.abs(sums - np.column_stack(observed[:nsum])) ** power).sum(axis=1)
    for extra in s[nsum:]:
        d = d + 0.01 * np.abs(extra)
    return d


def build(desc, variant):
    import elfi
    m = elfi.ElfiModel(name='c05model')
    ps = [elfi.Prior(LoggedUniform(pn), model=m, name=pn) for pn in desc['pnames']]
    w = desc['width']
    S = elfi.Simulator(partial(sim, width=w, layout=desc.get('layout', 'C')), *ps, observed=np.zeros((1, w)) if w > 1 else np.zeros(1), model=m, name='S')
    S.uses_meta = True
    src = S
    if desc['late'] == 'noise-sim':
        src = elfi.Simulator(noise_sim, S, observed=np.zeros((1, w)) if w > 1 else np.zeros(1), model=m, name='N')
        src.uses_meta = True
    R = elfi.Simulator(rid, model=m, name='rid')
    R.uses_meta = True
    sums = []
    for c in range(w):
        s = elfi.Summary(partial(summ, col=c, factor=variant['factors'][c], name='s%d' % c), src, model=m, name='s%d' % c)
        s.uses_meta = True
        sums.append(s)
    extra = []
    if desc['late'] == 'disc-param':
        extra.append(elfi.Prior(LoggedUniform(desc['late_name']), model=m, name=desc['late_name']))
    d = elfi.Discrepancy(partial(disc, power=variant['power'], nsum=w), *(sums + extra), model=m, name='d')
    d.uses_meta = True
    return m


_WRONG_SEEDS = [0, 0, 0, 1, 2, 7, 1000, 2 ** 31]      # 0: the literal seed 0
_OP_KINDS = (['run'] * 4 + ['run-extend'] * 3 + ['run-partial-batch'] * 2 + ['remove-store'] * 2 + ['replace-summary'] * 2 + ['replace-distance'] * 3
             + ['reopen'] * 3 + ['save'] + ['wrong-batch-size', 'wrong-seed', 'wrong-seed', 'fresh-sampler-no-seed'])


def _norm_op(t):
    kind, a = t
    if kind in ('run', 'run-partial-batch'):
        return (kind, 1 + a % 6)
    if kind == 'run-extend':      # 1-3 batches MORE than any run over this pool consumed so far
        return (kind, 1 + a % 3)
    if kind == 'remove-store':
        return (kind, a % 11)
    if kind == 'replace-summary':
        return (kind, a % 3)
    if kind == 'replace-distance':
        return (kind, 1 + a % 2)
    if kind in ('reopen', 'save', 'abandon-reopen'):
        return (kind, 0)
    if kind == 'wrong-batch-size':
        return (kind, 1 + a % 3)
    if kind == 'wrong-seed':
        return (kind, _WRONG_SEEDS[a % len(_WRONG_SEEDS)])
    return (kind, 1 + a % 4)


def strat(tier):
    # weighted kinds through sampled_from (repeating an alternative inside one_of does not weight it)
    op = st.tuples(st.sampled_from(_OP_KINDS), st.integers(0, 10 ** 6)).map(_norm_op)
    return st.fixed_dictionaries({
        'pnames': st.lists(st.sampled_from(['t', 'a', 'z', 'Sx', 'b2', 'U']), min_size=1, max_size=2, unique=True),
        'width': st.integers(1, 3),
        'layout': st.sampled_from(['C', 'C', 'F', 'strided']),
        # what happens to the store of a replaced node: removed, wiped and kept as a stored node (a fresh store is made on demand), or just remove_store()
        'replace_mode': st.sampled_from(['restore-fresh', 'forget']),
        # on-disk pools: close (= save) + reopen the pool after EVERY operation of the history (runs, removals, replacements)
        'reopen_after_edit': st.booleans(),
        # 'abandon': the pool is saved after its first run; a later 'reopen' ends the session WITHOUT saving again and opens that earlier save
        'reopen_style': st.sampled_from(['close', 'close', 'close', 'abandon']),
        # ('disc-param', a parameter feeding only the discrepancy, is not a valid elfi model: observed data would be stochastic)
        'late': st.sampled_from([None, None, None, 'noise-sim']),
        'late_name': st.sampled_from(['zz', 'A0', 'T', 'q']),
        'bs': st.integers(1, 5), 'n': st.integers(1, 6),
        'seed': st.one_of(st.integers(0, 2 ** 32 - 1), st.sampled_from([0, 1])),
        'disk': st.booleans(),
        'stored': st.lists(st.integers(0, 10), min_size=1, max_size=4),
        'store_params': st.booleans(),
        'ops': st.lists(op, min_size=2, max_size=7),
    })


def _sample_fields(res):
    f = {'n_sim': res.n_sim, 'threshold': float(res.threshold)}
    for k, v in res.outputs.items():
        f[k] = np.asarray(v)
    return f


def run_case(case):
    import elfi
    import elfi.client
    from elfi.model.elfi_model import ComputationContext
    desc = case
    w = case['width']
    bs, n, seed = case['bs'], case['n'], case['seed']
    cands = ['S'] + (['N'] if case['late'] == 'noise-sim' else []) + ['s%d' % c for c in range(w)] + ['d']
    stored = sorted(set(cands[i % len(cands)] for i in case['stored']))
    params = list(case['pnames']) + ([case['late_name']] if case['late'] == 'disc-param' else [])
    if case['store_params']:
        stored = stored + sorted(params)
    variant = {'factors': [1.0] * w, 'power': 1}
    tmp = tempfile.mkdtemp(prefix='c05-', dir=os.environ.get('VERIF_TMP'))
    known = []
    labels = ['disk' if case['disk'] else 'memory']
    ctx = 'stored=%r disk=%r bs=%d n=%d seed=%d late=%r ops=%r pnames=%r width=%d layout=%s' % (stored, case['disk'], bs, n, seed, case['late'], case['ops'], case['pnames'], w, case.get('layout'))
    pool = None
    try:
        with must_not_raise(P, 'creating the pool; ' + ctx):
            pool = (elfi.ArrayPool if case['disk'] else elfi.OutputPool)(list(stored), name='p', prefix=tmp)
        outs = ['rid'] + ['s%d' % c for c in range(w)]
        max_b = 0                 # batches consumed so far over this pool
        contaminated = False      # a D13 run has written shifted values into the pool
        late_after_S = None
        nontrivial = None
        nruns = 0
        saved_ok = False          # the pool was saved with every store present and no store was removed / replaced since

        def held_now():
            h = {}
            for node, store in pool.stores.items():
                if store is None:
                    h[node] = set()
                else:
                    h[node] = set(b for b in range(0, max_b + 2) if b in store)
            return h

        def pool_free(nsim):
            reset()
            with must_not_raise(P, 'pool-free reference run; ' + ctx):
                m = build(desc, variant)
                r = elfi.Rejection(m['d'], batch_size=bs, seed=seed, output_names=outs).sample(n, n_sim=nsim, bar=False)
            return _sample_fields(r)

        ops = [tuple(o) for o in case['ops']]
        if case.get('reopen_style') == 'abandon' and case['disk']:
            # this style is about sessions that end without saving: its alphabet is runs, extending runs and reopens
            remap = {'remove-store': 'run-extend', 'replace-distance': 'run-extend', 'replace-summary': 'reopen', 'wrong-batch-size': 'reopen'}
            ops = [((remap[k], 1 + a % 3) if remap[k] == 'run-extend' else (remap[k], 0)) if k in remap else (k, a) for k, a in ops]
        for oi, (op, arg) in enumerate(ops):
            octx = 'op %d %r; %s' % (oi, (op, arg), ctx)
            if op == 'run-extend':
                op, arg = 'run', max_b + arg
            if op in ('run', 'run-partial-batch', 'fresh-sampler-no-seed'):
                nb = arg
                nsim = max(n, nb * bs - (1 if (op == 'run-partial-batch' and nb * bs - 1 >= n) else 0))
                nbatches = -(-nsim // bs)
                ref = pool_free(nsim)
                ref_order = list(ORDER)
                if late_after_S is None and case['late'] is not None:
                    first = ref_order[:len(ref_order) // max(1, nbatches)] if nbatches else ref_order
                    late = 'N' if case['late'] == 'noise-sim' else case['late_name']
                    if 'S' in first and late in first:
                        late_after_S = first.index(late) > first.index('S')
                held = held_now()
                reset()
                with must_not_raise(P, 'run with the pool; ' + octx):
                    m = build(desc, variant)
                    kw = {} if (op == 'fresh-sampler-no-seed' and pool.has_context) else {'seed': seed}
                    bkw = {'batch_size': bs}      # samplers default to batch_size=1, so it is always given; the seed is adopted
                    with time_limit(120, 'C05:run-hangs', 'Rejection with a pool'):
                        rej = elfi.Rejection(m['d'], pool=pool, output_names=outs, **kw, **bkw)
                        res = rej.sample(n, n_sim=nsim, bar=False)
                calls = list(CALLS)
                nruns += 1
                # D13 predicate (open finding): in some batch a stochastic node is served from the pool (so it does not advance the
                # batch's single generator) while another stochastic node that executes AFTER it in that batch is not served and runs
                per_batch = len(ref_order) // max(1, nbatches)
                pos = {nm: i for i, nm in enumerate(ref_order[:per_batch])}
                priors = [x for x in pos if x not in ('S', 'N')]
                d13 = False
                for b in range(nbatches):
                    served = [x for x in pos if x in held and b in held[x]]
                    ran = [y for y in priors if y not in served] + [y for y in ('S', 'N') if (y, b) in calls]
                    if any(pos[y] > pos[x] for x in served for y in ran if y in pos):
                        d13 = True
                got = _sample_fields(res)
                diff = [k for k in sorted(ref) if not (np.array_equal(got.get(k), ref[k]) if isinstance(ref[k], np.ndarray) else got.get(k) == ref[k])]
                if diff:
                    # after a run that fell under D13 the pool holds values computed from a shifted stream: later differences
                    # in this history are consequences of the same finding
                    sig = 'C05:rng-shift-after-stored-stochastic' if (d13 or contaminated) else 'C05:result-differs-from-pool-free-run'
                    msg = 'result with the pool differs from the same seeded run without a pool in %r (held before the run: %r); %s' % (
                        diff, {k: sorted(v) for k, v in held.items()}, octx)
                    soft(P, known, sig, msg)
                # no stored operation re-invoked for a batch the pool held
                for node, b in calls:
                    if node in held and b in held[node]:
                        raise Violation('C05:stored-operation-reinvoked', 'operation of %s ran again for batch %d which the pool held; %s' % (node, b, octx))
                max_b = max(max_b, nbatches)
                # pool content: exactly the consumed batches, with the values of a fresh computation
                reset()
                mref = build(desc, variant)
                names = [nd for nd in pool.stores if pool.stores[nd] is not None]
                # the fresh computation requests what the sampler requests (which nodes run decides who draws what from the batch's
                # single generator): the discrepancy, all parameters, the extra outputs, plus the stored nodes
                fresh_outputs = sorted(set(['d'] + list(mref.parameter_names) + outs + list(pool.stores.keys())))
                h = elfi.client.BatchHandler(mref, ComputationContext(batch_size=bs, seed=seed), output_names=fresh_outputs)
                for node in pool.stores:
                    store = pool.stores[node]
                    have = set() if store is None else set(b for b in range(0, max_b + 3) if b in store)
                    expect = set(range(nbatches)) | held.get(node, set())
                    if have != expect:
                        raise Violation('C05:pool-batches', 'store %s holds batches %r, expected %r after consuming batches 0..%d; %s'
                                        % (node, sorted(have), sorted(expect), nbatches - 1, octx))
                if d13:
                    contaminated = True
                if not d13 and not known and not contaminated:
                    for b in range(nbatches):
                        fresh = h.compute(b)
                        got_b = pool.get_batch(b)
                        for node in pool.stores:
                            if node not in got_b:
                                raise Violation('C05:pool-batches', 'get_batch(%d) lacks %s; %s' % (b, node, octx))
                            if not np.array_equal(np.asarray(got_b[node]), np.asarray(fresh[node])):
                                raise Violation('C05:pool-content-differs-from-fresh-computation',
                                                'store %s batch %d holds %r, a fresh pool-free computation gives %r; %s'
                                                % (node, b, np.asarray(got_b[node]).tolist(), np.asarray(fresh[node]).tolist(), octx))
                reused = any(held[x] for x in held)
                needed_more = any(b not in held.get(x, set()) for x in held for b in range(nbatches))
                if reused and needed_more and any(b in held[x] for x in held for b in range(nbatches)):
                    nontrivial = True
                    labels.append('reuse-and-extend')
                elif reused:
                    labels.append('pure-reuse')
                else:
                    labels.append('fill')
                if d13:
                    labels.append('late-stochastic-after-stored')
            elif op == 'remove-store':
                names = sorted(pool.stores.keys())
                saved_ok = saved_ok and len(names) <= 1
                if len(names) > 1:
                    node = names[arg % len(names)]
                    with must_not_raise(P, 'remove_store; ' + octx):
                        st_ = pool.remove_store(node)
                        if hasattr(st_, 'close'):
                            st_.close()
                    labels.append('store-removed')
            elif op in ('replace-summary', 'replace-distance'):
                saved_ok = False
                if op == 'replace-summary':
                    # prefer a summary whose store the pool holds (any choice is a valid history; this one makes the removal matter)
                    held_s = [i_ for i_ in range(w) if 's%d' % i_ in pool.stores]
                    c = held_s[arg % len(held_s)] if held_s else arg % w
                    variant = dict(variant, factors=[f * (2.0 if i == c else 1.0) for i, f in enumerate(variant['factors'])])
                    affected = ['s%d' % c, 'd']
                else:
                    variant = dict(variant, power=3 - variant['power'])
                    affected = ['d']
                with must_not_raise(P, 'removing the stores of the replaced nodes; ' + octx):
                    for node in affected:
                        if node in pool.stores and case.get('replace_mode') == 'forget':
                            # the plain documented way: remove_store() and nothing else (its files stay where they are)
                            st_ = pool.remove_store(node)
                            if hasattr(st_, 'close'):
                                st_.close()
                            labels.append('replaced-node-no-longer-stored')
                        elif node in pool.stores:
                            st_ = pool.remove_store(node)
                            if hasattr(st_, 'clear') and st_ is not None:
                                st_.clear()
                            if hasattr(st_, 'close'):
                                st_.close()
                            if case['disk'] and pool.path:
                                for ext in ('.npy', '.pkl'):
                                    fn = os.path.join(pool.path, node + ext)
                                    if os.path.exists(fn):
                                        os.remove(fn)
                            pool.stores[node] = None      # keep the node stored: a fresh store is made on demand
                labels.append('downstream-replaced')
            if op in ('run', 'run-partial-batch') and nruns == 1 and case.get('reopen_style') == 'abandon' and case['disk'] and pool.has_context and not saved_ok:
                with must_not_raise(P, 'pool.save() after the first run; ' + octx):
                    pool.save()
                saved_ok = all(s_ is not None for s_ in pool.stores.values())
                labels.append('saved')
            elif op == 'reopen' and case.get('reopen_style') == 'abandon' and saved_ok:
                op = 'abandon-reopen'
            if op == 'reopen' or (case.get('reopen_after_edit') and op in ('run', 'run-partial-batch', 'fresh-sampler-no-seed', 'remove-store', 'replace-summary', 'replace-distance')):
                if case['disk'] and pool.has_context:
                    with must_not_raise(P, 'close/open; ' + octx):
                        pool.close()
                        pool = elfi.ArrayPool.open('p', prefix=tmp)
                    labels.append('reopened')
                    saved_ok = all(s_ is not None for s_ in pool.stores.values())
            if op == 'save':
                if case['disk'] and pool.has_context:
                    with must_not_raise(P, 'pool.save(); ' + octx):
                        pool.save()
                    saved_ok = all(s_ is not None for s_ in pool.stores.values())
                    labels.append('saved')
            elif op == 'abandon-reopen':
                # the session ends WITHOUT saving the pool again (the array files are complete: flushed and closed, which is what
                # the stores' destructors do); the pool saved earlier is opened - its pickled stores know fewer batches than the
                # files hold when runs happened after the save
                if case['disk'] and pool.has_context and saved_ok:
                    with must_not_raise(P, 'flush, close the stores without saving the pool, open the saved pool; ' + octx):
                        pool.flush()
                        for s_ in pool.stores.values():
                            if hasattr(s_, 'close'):
                                s_.close()
                        pool = elfi.ArrayPool.open('p', prefix=tmp)
                    labels.append('opened-an-earlier-save')
            elif op in ('wrong-batch-size', 'wrong-seed'):
                if pool.has_context:
                    before = held_now()
                    m = build(desc, variant)
                    # (a wrong batch_size is tried with the right seed and, for arg 3, without any seed)
                    kw = ({'batch_size': bs + arg, 'seed': seed} if arg != 3 else {'batch_size': bs + arg}) if op == 'wrong-batch-size' else {'batch_size': bs, 'seed': 0 if (arg == 0 and seed != 0) else (seed + max(arg, 1)) % (2 ** 32)}
                    try:
                        elfi.Rejection(m['d'], pool=pool, output_names=outs, **kw).sample(n, n_sim=max(n, bs), bar=False)
                    except ValueError:
                        pass
                    except Exception as e:
                        raise Violation('C05:wrong-context-wrong-exception', '%s raised %s instead of ValueError; %s' % (op, type(e).__name__, octx))
                    else:
                        raise Violation('C05:wrong-context-accepted', 'a pool created with batch_size=%d seed=%d accepted %r; %s' % (bs, seed, kw, octx))
                    if held_now() != before:
                        raise Violation('C05:wrong-context-changed-pool', 'the refused run changed the pool; %s' % octx)
                    labels.append('refusal-checked')
        return CaseResult(sorted(set(labels)), (True if nontrivial else None), known)
    finally:
        try:
            if pool is not None:
                for s in pool.stores.values():
                    if hasattr(s, 'close'):
                        s.close()
        except Exception:
            pass
        shutil.rmtree(tmp, ignore_errors=True)


# ------------------------------------------------------------------ SMC over a pool

def strat_smc(tier):
    from . import c04
    cfg = st.tuples(st.integers(3, 8),
                    st.one_of(st.tuples(st.just('thresholds'), st.lists(st.integers(30, 70), min_size=1, max_size=2)),
                              st.tuples(st.just('quantiles'), st.lists(st.sampled_from([0.5, 0.7]), min_size=1, max_size=2))))
    return st.fixed_dictionaries({
        'model': models.model_desc().map(lambda d: c04._cont(dict(d, infcut=None, vec_summary=False, kind='float' if d['kind'] == 'coarse' else d['kind']))),
        'bs': st.integers(1, 6), 'seed': st.integers(0, 2 ** 32 - 1), 'disk': st.booleans(),
        'stored': st.sampled_from(['sim', 'sim+summaries', 'summaries', 'sim+d']), 'store_params': st.booleans(),
        'configs': st.lists(cfg, min_size=1, max_size=2),
        # every run uses one of the (at most two) configurations: repeats of the same configuration are the common case
        'runs': st.lists(st.tuples(st.sampled_from([0, 0, 0, 1]), st.booleans()), min_size=2, max_size=4),
    })


def run_smc(case):
    """SMC (whose later batches depend on the earlier populations) filling and re-using a pool."""
    import elfi
    from . import c04
    desc, bs, seed = case['model'], case['bs'], case['seed']
    w = desc['width']
    sums = ['s%d' % c for c in range(w)]
    stored = {'sim': ['S'], 'sim+summaries': ['S'] + sums, 'summaries': sums, 'sim+d': ['S', 'd']}[case['stored']]
    if case['store_params']:
        stored = stored + sorted(desc['pnames'])
    ctx = 'stored=%r disk=%r bs=%d seed=%d configs=%r runs=%r model=%r' % (stored, case['disk'], bs, seed, case['configs'], case['runs'], desc)
    fin = c04.pilot(desc, seed)
    if len(fin) < 30:
        return CaseResult(['pilot-degenerate'], None)
    pick = lambda pct: float(fin[min(len(fin) - 1, int(len(fin) * pct / 100.0))])

    def objective(ci):
        n, (kind, val) = case['configs'][ci % len(case['configs'])]
        return n, ({'thresholds': sorted((pick(v) for v in val), reverse=True)} if kind == 'thresholds' else {'quantiles': list(val)})

    tmp = tempfile.mkdtemp(prefix='c05s-', dir=os.environ.get('VERIF_TMP'))
    known, labels = [], ['disk' if case['disk'] else 'memory', 'stored=' + case['stored']]
    pool = None
    nontrivial = None
    try:
        with must_not_raise(P, 'creating the pool; ' + ctx):
            pool = (elfi.ArrayPool if case['disk'] else elfi.OutputPool)(list(stored), name='p', prefix=tmp)
        models.reset()
        mp, _ = models.build(desc, name='pooled')
        seen_cfgs = []
        nheld = 0
        for ri, (ci, reopen) in enumerate(case['runs']):
            n, objkw = objective(ci)
            cfgkey = (n, repr(objkw))
            rctx = 'run %d: SMC.sample(%d, %r); %s' % (ri, n, objkw, ctx)
            # reference: the same seeded run without a pool, on a fresh model
            models.reset()
            with must_not_raise(P, 'pool-free reference run; ' + rctx):
                mr, _ = models.build(desc, name='ref%d' % ri)
                with time_limit(120, 'C05:run-hangs', 'SMC without a pool'):
                    ref = elfi.SMC(mr['d'], batch_size=bs, seed=seed, output_names=['rid']).sample(n, bar=False, **objkw)
            ref_f = c04._fields(ref)
            if case['disk'] and reopen and ri > 0:
                with must_not_raise(P, 'close + reopen of the on-disk pool; ' + rctx):
                    pool.close()
                    pool = elfi.ArrayPool.open('p', prefix=tmp)
                labels.append('reopened')
            held_before = set(b for b in range(nheld + 2) if all((st_ is not None and b in st_) for st_ in pool.stores.values()))
            models.reset()
            with must_not_raise(P, 'run with the pool; ' + rctx):
                with time_limit(120, 'C05:run-hangs', 'SMC with a pool'):
                    got = elfi.SMC(mp['d'], batch_size=bs, seed=seed, output_names=['rid'], pool=pool).sample(n, bar=False, **objkw)
            ran = sorted(set(b for b, _, _ in models.LOG))
            got_f = c04._fields(got)
            other_before = any(k != cfgkey for k in seen_cfgs)
            diff = [k for k in ref_f if k not in got_f or not _eq(ref_f[k], got_f[k])]
            if diff:
                msg = ('SMC with the pool differs from the same seeded SMC run without a pool in %r (%d batches held before the run; earlier '
                       'configurations on this pool: %r); %s' % (diff[:6], len(held_before), seen_cfgs, rctx))
                if other_before:
                    # open finding D22: the pool is keyed by batch index, but the content of an SMC batch depends on the earlier populations
                    soft(P, known, 'C05:smc-pool-reused-with-another-configuration', msg)
                else:
                    raise Violation('C05:smc-result-differs-from-pool-free-run', msg)
            if 'S' in stored or all(x in stored for x in sums):
                again = sorted(set(ran) & held_before)
                if again:
                    raise Violation('C05:stored-operation-invoked-again', 'the simulator ran again for batches %r which the pool held before the run; %s' % (again, rctx))
            lens = {k: (len(v) if v is not None else 0) for k, v in pool.stores.items()}
            nheld = max(nheld, int(got.n_batches))
            if len(set(lens.values())) != 1 or list(lens.values())[0] != nheld:
                raise Violation('C05:pool-does-not-hold-the-consumed-batches', 'after the run the stores hold %r batches, %d batches were consumed over this pool; %s' % (lens, nheld, rctx))
            if held_before and not other_before:
                nontrivial = True
                labels.append('reuse-same-configuration')
            if other_before:
                labels.append('reuse-after-another-configuration')
            seen_cfgs.append(cfgkey)
        return CaseResult(sorted(set(labels)), nontrivial, known)
    finally:
        try:
            if pool is not None:
                for s_ in pool.stores.values():
                    if hasattr(s_, 'close'):
                        s_.close()
        except Exception:
            pass
        shutil.rmtree(tmp, ignore_errors=True)


def _eq(a, b):
    a, b = np.asarray(a), np.asarray(b)
    return a.shape == b.shape and np.array_equal(a, b, equal_nan=True)


CHECK = Check(
    P, 'exploration',
    rule=('Hypothesis-generated histories of 2-7 operations over one pool (run with k batches, run with a partial last batch, fresh sampler '
          'adopting the pool context, remove a store, replace a summary / the distance with the documented store removal (store wiped and kept, or plain remove_store()), save() / open an earlier save after further runs (session ended without saving again), close+reopen an '
          'on-disk pool - optionally after EVERY operation -, attempts with a wrong batch_size (also without a seed) / seed incl. the literal seed 0) x stored set = any non-empty subset of {simulator, noise simulator, '
          'summaries, discrepancy} optionally plus all parameters x in-memory / on-disk pools x models with an optional stochastic node '
          'that draws after the simulator. Non-trivial = a run that found at least one needed batch in the pool and needed at least one more. '
          'smc part: 2-4 SMC runs (n 3-8, 1-2 thresholds or quantiles, at most two distinct configurations per history) over one in-memory / on-disk pool '
          'storing the simulator and/or summaries/discrepancy, optionally all parameters, optional close+reopen; non-trivial = a re-use with the same configuration.'),
    parts=[Part('histories', run_case, strategy=strat, examples={'quick': 480, 'thorough': 12000}, shards={'quick': 8, 'thorough': 16}),
           Part('smc', run_smc, strategy=strat_smc, examples={'quick': 96, 'thorough': 2400}, shards={'quick': 8, 'thorough': 16})],
    assumptions=['Rejection with an n_sim objective drives the pool (batch counts are then a function of the configuration)',
                 'on-disk pools live in per-case temporary directories removed afterwards'],
    design_ref='DESIGN.md section 4, C05',
    technique='Hypothesis-generated run histories over one pool; differential vs the pool-free seeded run, operation call log, '
              'pool content vs fresh computation',
    level_text='Exploration over pool histories: after every run the result must equal the pool-free run, the call log must contain no '
               '(node, batch) the pool held, every store must hold exactly the consumed batches with freshly recomputed values, and '
               'wrong batch_size/seed must be refused without changing the pool.',
    level_note='Open finding D13 (generator shift when a stochastic node draws after a stored stochastic node) is matched by its '
               'structural predicate and counted, all other oracles still apply to those cases.')
