"""C02 - seeded runs are pure functions of (model, seed, configuration).

Graph level: random DAGs whose stochastic operations draw from the generator they are handed and
report the draws inside the term they return.  Metamorphic relations R1-R5 (repeat, global-RNG
damage, history on the same context, insertion order, native vs multiprocessing client) and the
reference relation R6 (one generator seeded by (seed, batch index) only, consumed in one fixed
dependency-respecting order).  Sampler level: seeded Rejection / SMC runs under the same relations.
"""

import atexit
from functools import partial

import numpy as np
from hypothesis import strategies as st

from .. import models, termops
from ..core import CaseResult, Part, Violation, must_not_raise, time_limit
from ..refmodels import ref_sub_seed
from ..runner import Check
from . import c04

P = 'C02'
# many names differ only in case (or sort differently as text and as numbers): the execution order of the stochastic nodes
# must be a function of the names alone, never of the insertion order
NAMES = ['a', 'A', 'b', 'B', 'c', 'C', 'mu', 'MU', 'Mu', 'Zz', 'zz', 'A1', 'a1', 'm_2', 'x9', 'n10', 'n2', 'S', 's', 'tau']

_POOL = {}


def mp_client():
    """One shared 2-worker multiprocessing client per check process."""
    if 'c' not in _POOL:
        import elfi.client
        import elfi.clients.native as native
        import elfi.clients.multiprocessing as emp
        # importing the module makes it the default client class: put native back
        elfi.client.set_default_class(native.Client)
        elfi.client.set_client(native.Client())
        _POOL['c'] = emp.Client(num_processes=2)
        atexit.register(_close_pool)
    return _POOL['c']


def _close_pool():
    c = _POOL.pop('c', None)
    if c is not None:
        try:
            c.pool.terminate()
            c.pool.join()
        except Exception:
            pass


# ------------------------------------------------------------------ graph level

@st.composite
def graphs(draw):
    n = draw(st.integers(2, 9))
    names = draw(st.permutations(NAMES))[:n]
    nodes = []
    for nm in names:
        prev = [x['name'] for x in nodes]
        kind = draw(st.sampled_from(['prior', 'prior', 'sim', 'sim', 'op', 'const'] if prev else ['prior', 'sim', 'const']))
        k = 0 if kind == 'const' else draw(st.integers(min(1, len(prev)) if draw(st.integers(0, 3)) else 0, min(3, len(prev))))
        idx = draw(st.lists(st.integers(0, len(prev) - 1), min_size=k, max_size=k, unique=True)) if k else []
        nodes.append({'name': nm, 'kind': kind, 'parents': [prev[j] for j in idx],
                      'ndraw': draw(st.integers(0, 3)) if kind in ('prior', 'sim') else 0,
                      'value': draw(st.integers(0, 99))})
    return nodes


def strat_graph(tier):
    seeds = st.one_of(st.integers(0, 2 ** 32 - 1), st.integers(0, 10), st.sampled_from([2 ** 31 - 1, 2 ** 31, 2 ** 32 - 1]))
    return st.fixed_dictionaries({
        'nodes': graphs(),
        'perm': st.lists(st.integers(0, 10 ** 6), min_size=9, max_size=9),
        'seed': seeds, 'seed_type': st.sampled_from(['int', 'uint32', 'int32']),
        'bs': st.integers(1, 5), 'index': st.one_of(st.integers(0, 5), st.integers(0, 60), st.integers(0, 60), st.sampled_from([1023, 1024, 1500, 2500])),
        'outputs': st.lists(st.integers(0, 10 ** 6), min_size=1, max_size=5),
        'history': st.lists(st.one_of(st.tuples(st.just('npseed'), st.integers(0, 1000)),
                                      st.tuples(st.just('nprand'), st.integers(1, 50)),
                                      st.tuples(st.just('compute'), st.integers(0, 70)),
                                      st.tuples(st.just('compute'), st.integers(0, 6)),
                                      # a batch index RELATIVE to the judged one (the judged index itself, its neighbours): the judged
                                      # batch is then a repeat, or the high-water mark of the context's sub-seed cache
                                      st.tuples(st.just('compute-rel'), st.sampled_from([0, 0, -1, 1, -2, 2, -5])),
                                      st.tuples(st.just('other-generate'), st.integers(0, 1000))),
                            min_size=0, max_size=6),
        'use_mp': st.integers(0, 4),
    })


def build_graph(nodes, order=None, name='c02model'):
    import elfi
    m = elfi.ElfiModel(name=name)
    todo = list(order if order is not None else range(len(nodes)))
    built = set()
    while todo:
        for pos, i in enumerate(todo):
            nd = nodes[i]
            if all(p in built for p in nd['parents']):
                break
        todo.pop(pos)
        args = [m[p] for p in nd['parents']]
        nm = nd['name']
        if nd['kind'] == 'const':
            elfi.Constant(('C', nd['value']), model=m, name=nm)
        elif nd['kind'] == 'op':
            elfi.Operation(partial(termops.op, nm), *args, model=m, name=nm)
        elif nd['kind'] == 'prior':
            elfi.Prior(termops.DrawDist(nm, nd['ndraw']), *args, model=m, name=nm)
        else:
            elfi.Simulator(partial(termops.draw_op, nm, nd['ndraw']), *args, model=m, name=nm)
        built.add(nm)
    return m


def _typed_seed(case):
    s = case['seed']
    if case['seed_type'] == 'uint32':
        return np.uint32(s)
    if case['seed_type'] == 'int32' and s < 2 ** 31:
        return np.int32(s)
    return int(s)


def _compute(m, outputs, bs, seed, index, client=None, warm=()):
    import elfi.client
    from elfi.model.elfi_model import ComputationContext
    ctx = ComputationContext(batch_size=bs, seed=seed)
    h = elfi.client.BatchHandler(m, ctx, output_names=list(outputs), client=client)
    for i in warm:
        h.compute(i)
    termops.reset()
    return termops.canon(h.compute(index))


def _compute_given(m, outputs, bs, seed, index, given, warm=()):
    """One batch with the value of some nodes GIVEN (what SMC / BOLFI do with parameters), optionally on a handler that
    computed other batches before."""
    import elfi.client
    from elfi.model.elfi_model import ComputationContext
    h = elfi.client.BatchHandler(m, ComputationContext(batch_size=bs, seed=seed), output_names=list(outputs))
    for i in warm:
        h.compute(i)
    termops.reset()
    h._next_batch_index = index
    h.submit(dict(given))
    out, bi = h.wait_next()
    return termops.canon(out), [e[0] for e in termops.LOG if isinstance(e, tuple)]


def run_graph(case):
    import elfi.client
    import elfi.clients.native as native
    nodes = case['nodes']
    names = [nd['name'] for nd in nodes]
    by_name = {nd['name']: nd for nd in nodes}
    outputs = sorted(set(names[o % len(names)] for o in case['outputs']))
    seed = _typed_seed(case)
    bs, index = case['bs'], case['index']
    ctx = 'seed=%r (%s) batch_size=%d batch_index=%d outputs=%r graph=%r' % (case['seed'], case['seed_type'], bs, index, outputs, nodes)
    elfi.client.set_client(native.Client())
    with must_not_raise(P, 'building / computing; ' + ctx):
        m = build_graph(nodes)
        base = _compute(m, outputs, bs, seed, index)
    base_log = [e for e in termops.LOG if isinstance(e, tuple)]
    # R6: generator discipline
    order = [e[0] for e in base_log]
    pos = {nm: i for i, nm in enumerate(order)}
    if len(set(order)) != len(order):
        raise Violation('C02:stochastic-node-ran-twice', 'stochastic nodes ran in the order %r; %s' % (order, ctx))

    def anc(nm, acc):
        for p in by_name[nm]['parents']:
            if p not in acc:
                acc.add(p)
                anc(p, acc)
        return acc
    for nm in order:
        for a in anc(nm, set()):
            if a in pos and pos[a] > pos[nm]:
                raise Violation('C02:draw-order-not-dependency-respecting', '%s drew before its ancestor %s; %s' % (nm, a, ctx))
    rs = np.random.RandomState(ref_sub_seed(int(case['seed']), index))
    for nm, draws in base_log:
        exp = tuple(float(v) for v in rs.random_sample(by_name[nm]['ndraw']))
        if tuple(draws) != exp:
            raise Violation('C02:not-one-generator-seeded-by-seed-and-index',
                            'node %s drew %r but replaying RandomState(sub_seed(seed, batch_index)) through the nodes in execution order %r gives %r; %s'
                            % (nm, draws, order, exp, ctx))
    labels = []
    # R1 repeat
    again = _compute(m, outputs, bs, seed, index)
    if again != base:
        raise Violation('C02:repeat-differs', 'two identical seeded computations differ; %s' % ctx)
    # R2/R3 history + global RNG damage
    warm = []
    with must_not_raise(P, 'history; ' + ctx):
        for kind, v in case['history']:
            if kind == 'npseed':
                np.random.seed(v)
            elif kind == 'nprand':
                np.random.rand(v)
            elif kind == 'compute':
                warm.append(v)
            elif kind == 'compute-rel':
                warm.append(max(0, index + v))
            else:
                build_graph(nodes[:max(1, len(nodes) // 2)], name='other').generate(2, seed=v)
        hist = _compute(m, outputs, bs, seed, index, warm=warm)
    if hist != base:
        raise Violation('C02:history-dependent', 'result after history %r (same context warmed with batches %r) differs from the fresh run; %s'
                        % (case['history'], warm, ctx))
    hist_order = [e[0] for e in termops.LOG if isinstance(e, tuple)]
    if hist_order != order:
        raise Violation('C02:draw-order-history-dependent', 'stochastic nodes ran in order %r, fresh run %r; %s' % (hist_order, order, ctx))
    # R7 a stochastic output computed in earlier batches and GIVEN in this one: the batch is still a function of (seed, index, given
    # value) only - a fresh handler and one that computed other batches before must agree, in values and in who draws
    stoch_out = [nm for nm in outputs if nm in pos]
    if stoch_out:
        t = stoch_out[case['index'] % len(stoch_out)]
        with must_not_raise(P, 'batch with the value of %s given; %s' % (t, ctx)):
            import elfi.client as _ec
            from elfi.model.elfi_model import ComputationContext as _CC
            raw = _ec.BatchHandler(m, _CC(batch_size=bs, seed=seed), output_names=list(outputs)).compute(index)
            fresh_g, fresh_order = _compute_given(m, outputs, bs, seed, index, {t: raw[t]})
            warm_g, warm_order = _compute_given(m, outputs, bs, seed, index, {t: raw[t]}, warm=[index + 1, 0])
        if warm_g != fresh_g or warm_order != fresh_order:
            raise Violation('C02:given-value-batch-history-dependent',
                            'batch %d with the value of %s given: a handler that computed batches %r before gives another result / draw order (%r) than a fresh handler (%r); %s'
                            % (index, t, [index + 1, 0], warm_order, fresh_order, ctx))
        if t in fresh_order:
            raise Violation('C02:given-node-drew', 'node %s was given but still drew from the generator; %s' % (t, ctx))
        labels.append('given-stochastic-output')
    # via ElfiModel.generate for batch index 0
    if index == 0:
        termops.reset()
        g = termops.canon(m.generate(bs, outputs, seed=seed))
        if g != base:
            raise Violation('C02:generate-differs-from-compute', 'ElfiModel.generate differs from BatchHandler.compute(0); %s' % ctx)
    # R4 insertion order
    perm = sorted(range(len(nodes)), key=lambda i: case['perm'][i % len(case['perm'])] * 31 + i)
    if perm != list(range(len(nodes))):
        m2 = build_graph(nodes, order=perm)
        other = _compute(m2, outputs, bs, seed, index)
        if other != base:
            raise Violation('C02:insertion-order-dependent', 'the same graph inserted in order %r gives a different result; %s'
                            % ([names[i] for i in perm], ctx))
        labels.append('reinserted')
    # R5 worker processes
    if case['use_mp'] == 0:
        c = mp_client()
        with time_limit(600, 'C02:multiprocessing-hang', 'multiprocessing compute', cpu=False):
            mp = _compute(m, outputs, bs, seed, index, client=c)
        if mp != base:
            raise Violation('C02:client-dependent', 'multiprocessing client result differs from the native one; %s' % ctx)
        labels.append('multiprocessing')
    nst = len(order)
    dep = any(a in pos for nm in order for a in anc(nm, set()))
    if case['history']:
        labels.append('history')
    if warm:
        labels.append('warm-context')
        if any(w > index for w in warm):
            labels.append('warm-with-later-batches')
    if case['seed_type'] != 'int':
        labels.append('numpy-seed-type')
    nontrivial = True if (nst >= 2 and dep and case['history']) else None
    return CaseResult(labels, nontrivial)


# ------------------------------------------------------------------ sampler level

def strat_sampler(tier):
    return st.one_of(c04.strat_rejection(tier), c04.strat_smc(tier)).flatmap(lambda c: st.fixed_dictionaries({
        'base': st.just(c),
        'history': st.lists(st.one_of(st.tuples(st.just('npseed'), st.integers(0, 1000)),
                                      st.tuples(st.just('nprand'), st.integers(1, 50)),
                                      st.tuples(st.just('other-run'), st.integers(0, 1000))), min_size=1, max_size=4),
        'use_mp': st.integers(0, 2),
    }))


def run_sampler(case):
    import elfi.clients.native as native
    base = case['base']
    objkw = c04._objective(base)
    if objkw is None:
        return CaseResult(['pilot-degenerate'], None)
    ctx = 'sampler=%s n=%d bs=%d objective=%r seed=%d model=%r history=%r' % (
        base['sampler'], base['n'], base['bs'], objkw, base['seed'], base['model'], case['history'])
    with must_not_raise(P, 'first run; ' + ctx):
        a, _ = c04._run(base, objkw, native.Client(), 1)
    fa = c04._fields(a)
    with must_not_raise(P, 'history; ' + ctx):
        for kind, v in case['history']:
            if kind == 'npseed':
                np.random.seed(v)
            elif kind == 'nprand':
                np.random.rand(v)
            else:
                other = dict(base, seed=v, n=3)
                o2 = c04._objective(other)
                if o2 is not None:
                    c04._run(other, o2, native.Client(), 1)
        b, _ = c04._run(base, objkw, native.Client(), 1)
    fb = c04._fields(b)
    _compare(fa, fb, 'C02:sampler-history-dependent', 'the same seeded run repeated after %r' % (case['history'],), ctx)
    labels = ['sampler=' + base['sampler']]
    # an in-process client that executes lazily while several batches are loaded (generated schedule)
    from .. import schedclient
    sc = schedclient.SchedClient(base['schedule'], num_cores=base['cores'], lag=base['lag'])
    with must_not_raise(P, 'scheduled in-process run; ' + ctx):
        r, _ = c04._run(base, objkw, sc, base['mpb'])
    _compare(fa, c04._fields(r), 'C02:sampler-client-dependent', 'the same seeded run on an in-process client with max_parallel_batches=%r and schedule %r' % (base['mpb'], base['schedule']), ctx)
    if case['use_mp'] == 0:
        c = mp_client()
        with must_not_raise(P, 'multiprocessing run; ' + ctx):
            r, _ = c04._run(base, objkw, c, base['mpb'])
        _compare(fa, c04._fields(r), 'C02:sampler-client-dependent', 'the same seeded run on the multiprocessing client (2 workers, max_parallel_batches=%r)' % base['mpb'], ctx)
        labels.append('multiprocessing')
    return CaseResult(labels, True if a.n_batches >= 2 else None)


def _compare(fa, fb, sig, what, ctx):
    if set(fa) != set(fb):
        raise Violation(sig, '%s has different result fields; %s' % (what, ctx))
    for k in sorted(fa):
        x, y = fa[k], fb[k]
        same = np.array_equal(x, y, equal_nan=True) if isinstance(x, np.ndarray) else (x == y or (x != x and y != y))
        if not same:
            raise Violation(sig, '%s differs in %s: %r vs %r; %s' % (what, k, np.asarray(y).tolist(), np.asarray(x).tolist(), ctx))


CHECK = Check(
    P, 'exploration',
    rule=('graph part: Hypothesis-generated DAGs of 2-9 named nodes (names mostly case twins such as a/A, mu/MU/Mu, n2/n10; Prior/Simulator operations that draw 0-3 values from the generator '
          'they are handed and report them, deterministic Operations, Constants), seeds over uint32 as int/np.uint32/np.int32, batch '
          'sizes 1-5, batch indices 0-60 and beyond 1023 (long jumps of the sub-seed stream), output subsets, histories of 0-6 unrelated actions (np.random reseed/consume, other models, '
          'other batch indices on the SAME context incl. later and repeated ones), a second insertion order, multiprocessing client '
          'on every 5th case. Non-trivial = >=2 stochastic nodes with a dependency between two of them and a non-empty history. '
          'sampler part: seeded Rejection/SMC runs repeated after a history and on a 2-worker multiprocessing client.'),
    # fuzz=False: both parts keep a real 2-worker process pool alive, which must not outlive a libFuzzer process
    parts=[Part('graph', run_graph, strategy=strat_graph, examples={'quick': 1600, 'thorough': 32000}, fuzz=False),
           Part('sampler', run_sampler, strategy=strat_sampler, examples={'quick': 100, 'thorough': 4000}, fuzz=False,
                shards={'quick': 4, 'thorough': 16})],
    assumptions=['dask / ipyparallel clients are not exercised (the statement names in-process and worker processes)',
                 "meta['submission_index'] legitimately depends on history and is excluded from the compared terms",
                 'multiprocessing uses the fork start method, test operations are module-level and picklable'],
    design_ref='DESIGN.md section 4, C02',
    technique='Hypothesis-generated graphs/histories; metamorphic relations (repeat, global-RNG damage, warm context, insertion '
              'order, client) and replay of an independently derived RandomState stream',
    level_text='Exploration: each generated graph/configuration is executed under five metamorphic variants that must be bit-identical, '
               'and every logged draw is reproduced from RandomState(reference sub-seed) consumed in the observed (checked topological) '
               'order. Sampler runs are compared array-exact across histories and clients.',
    level_note='Trusts verif/refmodels.sub_seed_table (validated separately by C15) and legacy RandomState stream stability.')
