"""C10 - BOLFI posterior matches its definition; the fast GP path equals the GP.

Oracle: GPy's own predict / predictive_gradients on the wrapped GP instance (the library, not the
wrapper), scipy.special.log_ndtr, the ModelPrior log density (C08), extrapolated central
differences of logpdf for the gradient, bit-comparison of the evidence arrays across updates.
"""

import logging
import warnings

import numpy as np
from hypothesis import strategies as st
from scipy.special import log_ndtr

from ..core import CaseResult, Part, Violation, must_not_raise, soft, time_limit
from ..runner import Check

P = 'C10'
NAMES = ['t1', 'a', 'Zq']


def strat(tier):
    return st.integers(1, 3).flatmap(lambda d: st.fixed_dictionaries({
        'd': st.just(d),
        'bounds': st.lists(st.tuples(st.sampled_from([-5.0, -1.0, 0.0, 0.5, 3.0]), st.sampled_from([0.5, 1.0, 2.0, 6.0])), min_size=d, max_size=d),
        'n_ev': st.integers(5, 30), 'chunks': st.integers(1, 3), 'data_seed': st.integers(0, 10 ** 6),
        'optimize': st.sampled_from(['last', 'every', 'none']), 'max_opt_iters': st.sampled_from([10, 25, 50]),
        'func': st.sampled_from(['bowl', 'sine', 'steep', 'flat']), 'noise': st.sampled_from([0.01, 0.1, 0.5]),
        'threshold': st.one_of(st.none(), st.sampled_from([5, 20, 50, 90]), st.sampled_from(['far-below', 'zero', 'int-zero'])),
        # 'log': the evidence is a log-discrepancy (values on both sides of 0, so that a threshold of exactly 0 is a natural choice)
        'yscale': st.sampled_from(['raw', 'raw', 'log']),
        'bounds_keys_reversed': st.booleans(),
        'copy_branch': st.sampled_from([False, False, True]),
        'prior': st.sampled_from(['uniform', 'normal']),
        'history': st.lists(st.sampled_from(['sample-phase', 'update', 'update-optimize', 'optimize', 'plain-predict']), min_size=1, max_size=5),
    }))


def _f(kind, U):
    """Smooth discrepancy-like function of points U in the unit cube."""
    if kind == 'bowl':
        return 1.0 + 4.0 * ((U - 0.4) ** 2).sum(axis=1)
    if kind == 'sine':
        return 2.0 + np.sin(5 * U).sum(axis=1)
    if kind == 'steep':
        return 0.5 + 40.0 * ((U - 0.6) ** 2).sum(axis=1)
    return 1.0 + 0.0 * U.sum(axis=1)


def _setup(case):
    import elfi
    from elfi.methods.bo.gpy_regression import GPyRegression
    from elfi.model.extensions import ModelPrior
    d = case['d']
    names = sorted(NAMES[:d])
    lo = np.array([b[0] for b in case['bounds']])
    w = np.array([b[1] for b in case['bounds']])
    bounds = {n: (float(lo[i]), float(lo[i] + w[i])) for i, n in enumerate(names)}
    if case.get('bounds_keys_reversed'):
        bounds = dict(reversed(list(bounds.items())))      # the same bounds, written down in another key order
    rs = np.random.RandomState(case['data_seed'])
    gp = GPyRegression(names, bounds=bounds, max_opt_iters=case['max_opt_iters'])
    m = elfi.ElfiModel(name='c10model')
    for i, n in enumerate(names):
        if case['prior'] == 'uniform':
            elfi.Prior('uniform', float(lo[i]), float(w[i]), model=m, name=n)
        else:
            elfi.Prior('norm', float(lo[i] + w[i] / 2), float(w[i]), model=m, name=n)
    prior = ModelPrior(m)
    return gp, prior, names, lo, w, rs


def _evidence(case, rs, lo, w, n):
    U = rs.rand(n, case['d'])
    y = _f(case['func'], U) + case['noise'] * rs.randn(n)
    if case.get('yscale') == 'log':
        y = np.log(np.maximum(y, 1e-3) / 1.6)
    return lo + U * w, y


def _quiet():
    warnings.simplefilter('ignore')
    logging.getLogger('GP').setLevel(logging.ERROR)
    logging.getLogger('paramz').setLevel(logging.ERROR)
    logging.getLogger('elfi').setLevel(logging.ERROR)


def run_case(case):
    """Known findings do not end the bookkeeping: everything matched against an open finding on the way is reported, first come first."""
    from ..core import open_signatures
    known = []
    try:
        return _run_case(case, known)
    except Violation as v:
        if v.signature in open_signatures(P):
            known.append((v.signature, v.message))
            return CaseResult(['stopped-at-known-finding'], None, known)
        raise


def _run_case(case, known):
    from elfi.methods.posteriors import BolfiPosterior
    _quiet()
    d = case['d']
    ctx = 'case=%r' % (case,)
    with must_not_raise(P, 'building the surrogate; ' + ctx):
        gp, prior, names, lo, w, rs = _setup(case)
    hi = lo + w
    # ---- (e) evidence kept unchanged and in order across updates
    sizes = np.array_split(np.arange(case['n_ev']), case['chunks'])
    allX, allY = [], []
    labels = ['d=%d' % d, 'optimize=' + case['optimize']]
    with time_limit(600, 'C10:gp-fit-hangs', 'GP update/optimise'):
        for ci, idx in enumerate(sizes):
            if len(idx) == 0:
                continue
            X, y = _evidence(case, rs, lo, w, len(idx))
            oldX = None if gp.n_evidence == 0 else np.array(gp.X).copy()
            oldY = None if gp.n_evidence == 0 else np.array(gp.Y).copy()
            opt = case['optimize'] == 'every' or (case['optimize'] == 'last' and ci == len(sizes) - 1)
            with must_not_raise(P, 'update; ' + ctx):
                gp.update(X.copy(), y.copy(), optimize=opt)
            allX.append(X)
            allY.append(y)
            nX, nY = np.array(gp.X), np.array(gp.Y)
            expX, expY = np.vstack(allX), np.concatenate(allY)[:, None]
            if oldX is not None and (not np.array_equal(nX[:len(oldX)], oldX) or not np.array_equal(nY[:len(oldY)], oldY)):
                raise Violation('C10:update-changed-earlier-evidence', 'earlier evidence changed by update %d; %s' % (ci, ctx))
            if nX.shape != expX.shape or not np.array_equal(nX, expX) or not np.array_equal(nY, expY):
                raise Violation('C10:update-evidence-order', 'after update %d the evidence is not the earlier evidence followed by the new rows in order; %s' % (ci, ctx))
    # a copy of the surrogate is a surrogate of its own: evidence added to the copy does not reach the original and vice versa
    # (two optimisation runs started from one pre-fitted surrogate)
    if case.get('copy_branch'):
        with must_not_raise(P, 'copy() and separate updates; ' + ctx):
            baseX, baseY = np.array(gp.X).copy(), np.array(gp.Y).copy()
            twin = gp.copy()
            Xa, ya = _evidence(case, rs, lo, w, 2)
            Xb, yb = _evidence(case, rs, lo, w, 3)
            twin.update(Xa.copy(), ya.copy(), optimize=False)
            gp2 = gp.copy()
            gp2.update(Xb.copy(), yb.copy(), optimize=False)
        for nm_, g_, Xn, yn in (('first copy', twin, Xa, ya), ('second copy', gp2, Xb, yb)):
            gx, gy = np.array(g_.X), np.array(g_.Y)
            if gx.shape != (len(baseX) + len(Xn), d) or not (np.array_equal(gx[:len(baseX)], baseX) and np.array_equal(gx[len(baseX):], Xn)
                                                             and np.array_equal(gy[:len(baseY), 0], baseY[:, 0]) and np.array_equal(gy[len(baseY):, 0], yn)):
                raise Violation('C10:copies-share-evidence', 'the %s of the surrogate, updated on its own, does not hold the common evidence followed by its own rows (the other copy was updated with other rows); %s' % (nm_, ctx))
        if not (np.array_equal(np.array(gp.X), baseX) and np.array_equal(np.array(gp.Y), baseY)):
            raise Violation('C10:copies-share-evidence', 'updating copies of the surrogate changed the evidence of the original; %s' % ctx)
        labels.append('copies-updated-separately')
    yall = np.concatenate(allY)
    thr = case['threshold']
    if thr == 'far-below':
        h = float(yall.min() - 8 * max(yall.std(), 0.1))
    elif thr == 'zero':
        h = 0.0
        labels.append('threshold-exactly-0')
    elif thr == 'int-zero':
        h = 0
        labels.append('threshold-exactly-0')
    elif thr is None:
        h = None
    else:
        h = float(np.percentile(yall, thr))
    with must_not_raise(P, 'BolfiPosterior; ' + ctx):
        post = BolfiPosterior(gp, threshold=h, prior=prior, n_inits=3, max_opt_iters=50)
    if h is None:
        h = float(post.threshold)
        labels.append('default-threshold')
    G = gp.instance
    qs = np.random.RandomState(case['data_seed'] + 5)
    inside = lo + qs.rand(6, d) * w
    onb = inside[:2].copy()
    for r in range(len(onb)):
        j = qs.randint(d)
        onb[r, j] = (lo[j], hi[j])[qs.randint(2)]
    outside = inside[:3].copy()
    for r in range(len(outside)):
        j = qs.randint(d)
        side = qs.randint(2)
        outside[r, j] = (lo[j] - qs.uniform(1e-9, 2.0), hi[j] + qs.uniform(1e-9, 2.0))[side]

    yscale = float(np.abs(yall).max() + 1.0)

    def conditioning(Gm):
        """Round-off amplification of the explicit-inverse fast path relative to GPy's Cholesky solves: eps * cond(K + s2 I)."""
        K = Gm.kern.K(Gm.X) + np.eye(len(Gm.X)) * float(Gm.likelihood.variance[0])
        kscale = float(np.max(np.diag(Gm.kern.K(Gm.X[:1]))))
        return 1e-12 * float(np.linalg.cond(K)), kscale

    def well_conditioned(Xq):
        # where the predictive variance is ~0 relative to the data scale (noise optimised away) the fast path and GPy differ by
        # round-off of the order of the variance itself; such points are judged by the direct comparison (d) only
        return G.predict(Xq)[1][:, 0] >= 1e-6 * yscale ** 2

    def ref_logpdf(Xq):
        mu, v = G.predict(Xq)
        z = (h - mu[:, 0]) / np.sqrt(v[:, 0])
        with np.errstate(all='ignore'):
            return log_ndtr(z) + np.reshape(prior.logpdf(Xq if d > 1 else Xq[:, 0]), -1), z
    nontrivial = None
    for phase in ('plain', 'sampling'):
        gp.is_sampling = (phase == 'sampling')
        pts_in = np.vstack([inside, onb])
        refv, z = ref_logpdf(pts_in)
        with np.errstate(all='ignore'):
            with must_not_raise(P, 'logpdf (%s phase); %s' % (phase, ctx)):
                # sampling phase = single points (the fast path is specified for single points)
                if phase == 'sampling':
                    got = np.array([float(np.reshape(post.logpdf(x if d > 1 else x[0]), -1)[0]) for x in pts_in])
                else:
                    got = np.reshape(post.logpdf(pts_in if d > 1 else pts_in[:, 0]), -1)
                    one = post.logpdf(pts_in[0] if d > 1 else pts_in[0, 0])
                    if np.shape(one) != ():
                        raise Violation('C10:logpdf-shape', 'logpdf of one point has shape %r; %s' % (np.shape(one), ctx))
                    if got.shape != (len(pts_in),):
                        raise Violation('C10:logpdf-shape', 'logpdf of %d points has shape %r; %s' % (len(pts_in), got.shape, ctx))
        fin = np.isfinite(refv)
        tol = 1e-9 if phase == 'plain' else 1e-6
        if phase == 'sampling':
            amp, kscale = conditioning(G)
            v_ref = G.predict(pts_in)[1][:, 0]
            # tolerance on log Phi(z) implied by the admissible relative error of the variance and absolute error of the mean
            tol = 1e-6 + 10 * amp * kscale / np.maximum(v_ref, 1e-300) + 10 * amp * yscale / np.sqrt(np.maximum(v_ref, 1e-300))
        if phase == 'sampling':
            # in the saturated regime (|z| in the hundreds) the round-off between the fast path and GPy is amplified by z^2:
            # there the fast path is judged by the direct prediction comparison of part (d) only
            keep = (np.abs(z) <= 40) & well_conditioned(pts_in)
            if not keep.all():
                labels.append('saturated-or-near-zero-variance-points-skipped')
            got, refv, z, fin, pts_in, tol = got[keep], refv[keep], z[keep], fin[keep], pts_in[keep], tol[keep]
        tolv = np.broadcast_to(tol, got.shape)
        if not (np.array_equal(np.isfinite(got), fin) and np.all(np.abs(got[fin] - refv[fin]) <= tolv[fin] * (np.abs(refv[fin]) + 1 + np.abs(z[fin]) ** 2))):
            with np.errstate(all='ignore'):
                k = int(np.argmax(np.where(fin & np.isfinite(got), np.abs(got - refv), np.inf)))
            raise Violation('C10:logpdf-value', '%s phase: logpdf(%r) = %r, log Phi((h - mean)/sd) + log prior = %r (z = %.3f, threshold %r); %s'
                            % (phase, pts_in[k].tolist(), float(got[k]), float(refv[k]), float(z[k]), h, ctx))
        with np.errstate(all='ignore'):
            go = np.array([float(np.reshape(post.logpdf(x if d > 1 else x[0]), -1)[0]) for x in outside])
            gg = np.array([np.reshape(post.gradient_logpdf(x if d > 1 else x[0]), -1) for x in outside])
        if not np.all(np.isneginf(go)):
            raise Violation('C10:logpdf-outside-bounds', '%s phase: logpdf outside the bounds is %r at %r (bounds %r..%r); %s' % (phase, go.tolist(), outside.tolist(), lo.tolist(), hi.tolist(), ctx))
        # (the derivative of a log density that is -inf is only pinned down when the prior vanishes there too)
        if case['prior'] == 'uniform' and np.any(gg != 0):
            raise Violation('C10:gradient-outside-bounds', '%s phase: gradient outside the bounds is %r; %s' % (phase, gg.tolist(), ctx))
        # ---- (c) gradient vs extrapolated central differences of the reference log density
        zin = ref_logpdf(inside[:3])[1]
        for x, zz in zip(inside[:3], zin):
            if abs(zz) > 6 or np.any(x - lo < 1e-3 * w) or np.any(hi - x < 1e-3 * w):
                continue
            if phase == 'sampling' and not well_conditioned(x[None, :])[0]:
                continue
            with np.errstate(all='ignore'):
                g = np.reshape(post.gradient_logpdf(x if d > 1 else x[0]), -1)
            if not np.all(np.isfinite(g)) and float(G.kern.rbf.lengthscale[0]) ** 2 < 1e-300:
                # open finding D21: the optimiser collapsed the lengthscale to the GP library's lower clamp (its square underflows)
                soft(P, known, 'C10:gradient-nan-at-collapsed-lengthscale',
                     '%s phase: gradient_logpdf(%r) = %r with RBF lengthscale %r; %s' % (phase, x.tolist(), g.tolist(), float(G.kern.rbf.lengthscale[0]), ctx))
                continue
            gref = np.zeros(d)
            for j in range(d):
                def fj(t):
                    xx = x.copy()
                    xx[j] += t
                    return ref_logpdf(xx[None, :])[0][0]
                hh = 1e-4 * w[j]
                d1 = (fj(hh) - fj(-hh)) / (2 * hh)
                d2 = (fj(hh / 2) - fj(-hh / 2)) / hh
                gref[j] = (4 * d2 - d1) / 3
            if not np.all(np.isfinite(gref)):
                continue
            gt = 2e-4
            if phase == 'sampling':
                amp, kscale = conditioning(G)
                vv = float(G.predict(x[None, :])[1][0, 0])
                gt = 2e-4 + 100 * amp * kscale / vv
            if not np.allclose(g, gref, rtol=gt, atol=gt * (1 + np.abs(gref).max())):
                raise Violation('C10:gradient-value', '%s phase: gradient_logpdf(%r) = %r, derivative of the log density = %r (z=%.2f); %s'
                                % (phase, x.tolist(), g.tolist(), gref.tolist(), zz, ctx))
            if case['optimize'] != 'none' and abs(zz) < 6:
                nontrivial = True
    # ---- (d) fast path equals the GP library, across a history of phase switches / updates / optimisations
    gp.is_sampling = False
    for step, act in enumerate(case['history']):
        hctx = 'history %r step %d; %s' % (case['history'], step, ctx)
        with must_not_raise(P, 'history step; ' + hctx):
            if act == 'update' or act == 'update-optimize':
                X, y = _evidence(case, rs, lo, w, 3)
                gp.is_sampling = False
                gp.update(X, y + 0.5, optimize=(act == 'update-optimize'))
            elif act == 'optimize':
                gp.is_sampling = False
                gp.optimize()
            elif act == 'plain-predict':
                gp.is_sampling = False
                gp.predict(inside[:1])
            else:
                gp.is_sampling = True
        if act != 'sample-phase':
            continue
        G = gp.instance
        for x in np.vstack([inside[:3], onb[:1], outside[:1]]):
            xq = x[None, :]
            with must_not_raise(P, 'fast-path prediction; ' + hctx):
                mu, var = gp.predict(xq)
                gmu, gvar = gp.predictive_gradients(xq)
            rmu, rvar = G.predict(xq)
            rgmu, rgvar = G.predictive_gradients(xq)
            rgmu = rgmu[:, :, 0]
            if float(G.kern.rbf.lengthscale[0]) ** 2 < 1e-300 and not (np.all(np.isfinite(mu)) and np.all(np.isfinite(var)) and np.all(np.isfinite(gmu)) and np.all(np.isfinite(gvar))):
                # open finding D21, third symptom: the squared lengthscale is subnormal, -0.5 / lengthscale**2 is -inf and the fast path returns NaN
                soft(P, known, 'C10:fast-path-nan-at-collapsed-lengthscale',
                     'sampling-phase prediction / gradients at %r are not finite with RBF lengthscale %r (GPy gives mean %r, gradient %r); %s'
                     % (x.tolist(), float(G.kern.rbf.lengthscale[0]), float(rmu[0, 0]), np.ravel(rgmu).tolist(), hctx))
                continue
            sc = float(np.abs(gp.Y).max() + 1.0)
            amp, kscale = conditioning(G)
            if not (np.allclose(mu, rmu, rtol=1e-7, atol=(1e-9 + amp) * sc) and np.allclose(var, rvar, rtol=1e-7, atol=1e-9 * sc ** 2 + amp * kscale)):
                raise Violation('C10:fast-path-prediction', 'sampling-phase predict(%r) = (%r, %r), GPy gives (%r, %r); %s'
                                % (x.tolist(), float(np.ravel(mu)[0]), float(np.ravel(var)[0]), float(rmu[0, 0]), float(rvar[0, 0]), hctx))
            gs = 1.0 / float(np.min(w))
            if not (np.allclose(gmu, rgmu, rtol=1e-6, atol=(1e-8 + 10 * amp) * sc * gs) and np.allclose(gvar, rgvar, rtol=1e-6, atol=(1e-8 * sc ** 2 + 10 * amp * kscale) * gs)):
                raise Violation('C10:fast-path-gradients', 'sampling-phase predictive_gradients(%r) = (%r, %r), GPy gives (%r, %r); %s'
                                % (x.tolist(), np.ravel(gmu).tolist(), np.ravel(gvar).tolist(), np.ravel(rgmu).tolist(), np.ravel(rgvar).tolist(), hctx))
        labels.append('fast-path-checked')
    gp.is_sampling = False
    hs = case['history']
    for a, b in zip(hs, hs[1:]):
        if a in ('update', 'update-optimize', 'optimize') and b == 'sample-phase':
            labels.append('sampling-right-after-model-change')
    return CaseResult(sorted(set(labels)), nontrivial, known)


CHECK = Check(
    P, 'exploration',
    rule=('Hypothesis-generated surrogates: 1-3 dimensions, asymmetric/negative bounds, 5-30 evidence points y = smooth(x) + noise from a data seed '
          'added in 1-3 update() chunks with hyper-parameter optimisation on every / the last / no update (max_opt_iters 10-50), threshold '
          'None (optimised minimum) / a percentile of y / far below all evidence (deep tail) / exactly 0 (0.0 and the int 0), evidence optionally on a log scale, bounds dict in either key order, optionally two copies of the surrogate updated separately, uniform or normal ModelPrior; query points '
          'inside, on and outside the bounds as scalars / 1-D / 2-D; both prediction phases; and a history of 1-5 phase switches, '
          'update(), update(optimize), optimize() and plain predict() calls before each sampling-phase comparison. Non-trivial = optimised '
          'hyper-parameters and an interior query with Phi-argument in (-6, 6).'),
    parts=[Part('posterior', run_case, strategy=strat, examples={'quick': 192, 'thorough': 3200}, shards={'quick': 16, 'thorough': 16}, max_shrink_s=90)],
    assumptions=['GPy predict / predictive_gradients of the wrapped GP instance are the reference',
                 'the fast path is specified for single points; noiseless=True is ignored by it (documented) and not compared',
                 'gradients are compared for |z| <= 6 at points at least 1e-3 widths inside the bounds'],
    design_ref='DESIGN.md section 4, C10',
    technique='Hypothesis-generated evidence sets/bounds/thresholds and phase histories; differential against the GP library '
              'itself, log_ndtr reference, extrapolated finite differences, bit-comparison of evidence across updates',
    level_text='Exploration: logpdf compared to 1e-9 (plain) / 1e-6 (fast path) with the definition evaluated through GPy; -inf and zero '
               'gradient outside; gradient vs Richardson central differences; fast-path means/variances/gradients vs GPy after every '
               'generated history of updates/optimisations; evidence arrays bit-identical and ordered across updates.',
    level_note='Trusts GPy; tolerances in DESIGN.md 2.7.')
