"""C17 - regression adjustment and model comparison equal their formulas.

Oracle: numpy.linalg.lstsq on [1, X] restricted to the finite rows; explicit sort of the pooled
discrepancies for the model comparison.
"""

from functools import partial

import numpy as np
from hypothesis import strategies as st

from ..core import CaseResult, Part, Violation, must_not_raise
from ..runner import Check
from .c12 import cols, dummy_sim

P = 'C17'
PN = ['t', 'a', 'z', 'mu', 'b2']


def strat_adjust(tier):
    return st.fixed_dictionaries({
        'n': st.integers(12, 200 if tier == 'thorough' else 80), 'k': st.integers(1, 4),
        'pnames': st.lists(st.sampled_from(PN), min_size=1, max_size=3, unique=True),
        'data_seed': st.integers(0, 10 ** 6),
        'bad_summ': st.lists(st.tuples(st.integers(0, 10 ** 6), st.integers(0, 3), st.sampled_from(['nan', 'inf', '-inf'])), max_size=4),
        'bad_par': st.lists(st.tuples(st.integers(0, 10 ** 6), st.integers(0, 2), st.sampled_from(['nan', 'inf', '-inf'])), max_size=4),
        'zero_rows': st.lists(st.integers(0, 10 ** 6), max_size=3),
        'noise': st.sampled_from([0.0, 0.1, 1.0]),
        'affine_seed': st.integers(0, 10 ** 6),
        'subset': st.booleans(),
        'req_order': st.lists(st.integers(0, 10 ** 6), min_size=3, max_size=3),
        # integer-valued parameters (a discrete prior): whole numbers, stored as int64 where the column has no NaN/inf
        'int_params': st.sampled_from([False, False, True]),
        # overall magnitude of the parameters and of the summaries (uniformly tiny or large, perfectly valid)
        'tmag': st.sampled_from([1.0, 1.0, 1e-9, 1e6]), 'smag': st.sampled_from([1.0, 1.0, 1e-9, 1e6]),
    })


VAL = {'nan': np.nan, 'inf': np.inf, '-inf': -np.inf}


def _model(obs, k):
    import elfi
    m = elfi.ElfiModel(name='c17model')
    elfi.Prior('uniform', 0, 1, model=m, name='t')
    S = elfi.Simulator(partial(dummy_sim, width=k), model=m, name='S', observed=obs)
    names = []
    for i in range(k):
        elfi.Summary(partial(cols, a=i, b=i + 1), S, model=m, name='s%d' % i)
        names.append('s%d' % i)
    return m, names


def run_adjust(case):
    from elfi.methods.post_processing import adjust_posterior
    from elfi.methods.results import Sample
    n, k, pn = case['n'], case['k'], case['pnames']
    rs = np.random.RandomState(case['data_seed'])
    obs = rs.randn(1, k)
    S = obs + rs.randn(n, k) * rs.uniform(0.5, 2.0, size=k)
    B = rs.randn(k, len(pn))
    theta = 1.5 + (S - obs).dot(B) + case['noise'] * rs.randn(n, len(pn))
    tmag = 1.0 if case.get('int_params') else float(case.get('tmag', 1.0))
    smag = float(case.get('smag', 1.0))
    theta, S, obs = theta * tmag, S * smag, obs * smag
    zero_rows = sorted(set(r % n for r in case['zero_rows']))
    for r in zero_rows:
        S[r] = obs[0]
    for r, c, kind in case['bad_summ']:
        if (r % n) not in zero_rows:
            S[r % n, c % k] = VAL[kind]
    if case.get('int_params'):
        theta = np.round(theta * 3.0)
    for r, c, kind in case['bad_par']:
        theta[r % n, c % len(pn)] = VAL[kind]
    int_cols = [bool(case.get('int_params')) and bool(np.isfinite(theta[:, j]).all()) for j in range(len(pn))]
    fin_rows = np.isfinite(S).all(axis=1)
    masks = [fin_rows & np.isfinite(theta[:, j]) for j in range(len(pn))]
    if min(mk.sum() for mk in masks) < k + 4:
        return CaseResult(['too-few-finite-rows'], None)
    ctx = 'n=%d k=%d params=%r data_seed=%d bad_summ=%r bad_par=%r zero_rows=%r parameter magnitude %g summary magnitude %g' % (n, k, pn, case['data_seed'], case['bad_summ'], case['bad_par'], zero_rows, tmag, smag)

    def run(Sm, obsm, names_req):
        m, sn = _model(obsm, k)
        outputs = {p: (theta[:, j].astype(np.int64) if int_cols[j] else theta[:, j].copy()) for j, p in enumerate(pn)}
        for i, s in enumerate(sn):
            outputs[s] = Sm[:, i].copy()
        sample = Sample(method_name='test', outputs=outputs, parameter_names=list(pn))
        before = {k_: np.array(v_, copy=True) for k_, v_ in sample.outputs.items()}
        import warnings
        with warnings.catch_warnings():
            warnings.simplefilter('ignore')
            out = adjust_posterior(sample, m, sn, parameter_names=names_req)
        # the accepted sample handed in still holds the accepted values (the adjustment returns a NEW sample)
        for k_, v_ in before.items():
            if not np.array_equal(np.asarray(sample.outputs[k_]), v_, equal_nan=True):
                raise Violation('C17:adjust-changes-the-accepted-sample', 'adjust_posterior changed the output %r of the sample it was given; %s' % (k_, ctx))
        return out
    req = None
    if case['subset'] and len(pn) > 1:
        # any non-empty sub-list of the sample's parameters in any order
        order = sorted(range(len(pn)), key=lambda i: case['req_order'][i] * 7 + i)
        keep = max(1, len(pn) - 1 - case['req_order'][0] % 2)
        req = [pn[i] for i in order[:keep]]
    with must_not_raise(P, 'adjust_posterior; ' + ctx):
        adj = run(S, obs, req)
    names = req or list(pn)
    X = S - obs
    for p in names:
        j = pn.index(p)
        mk = masks[j]
        A = np.column_stack([np.ones(mk.sum()), X[mk]])
        beta = np.linalg.lstsq(A, theta[mk, j], rcond=None)[0]
        ref = theta[mk, j] - X[mk].dot(beta[1:])
        got = np.asarray(adj.outputs[p])
        if got.shape != ref.shape:
            raise Violation('C17:adjust-rows', 'parameter %s: %d rows have finite summaries and parameter, adjust_posterior returned %r values; %s'
                            % (p, mk.sum(), got.shape, ctx))
        scale = max(tmag, np.abs(ref).max())
        if not np.allclose(got, ref, rtol=1e-7, atol=1e-8 * scale):
            raise Violation('C17:adjust-value', 'parameter %s: adjusted values differ from theta - (s - s_obs).beta_lstsq by up to %.3g; %s'
                            % (p, np.abs(got - ref).max(), ctx))
        idx = np.flatnonzero(mk)
        for r in zero_rows:
            if mk[r]:
                pos = int(np.searchsorted(idx, r))
                if got[pos] != theta[r, j]:
                    raise Violation('C17:adjust-zero-row-changed', 'parameter %s row %d has simulated == observed summaries but %r became %r; %s'
                                    % (p, r, theta[r, j], got[pos], ctx))
    # affine re-expression of the summaries
    ars = np.random.RandomState(case['affine_seed'])
    q1, _ = np.linalg.qr(ars.randn(k, k))
    q2, _ = np.linalg.qr(ars.randn(k, k))
    Amat = (q1 * np.exp(ars.uniform(-1, 1, size=k))).dot(q2)
    shift = ars.randn(k) * 2 * smag
    with np.errstate(invalid='ignore'):
        S2 = S.dot(Amat.T) + shift
    S2[~fin_rows] = np.nan
    for r in zero_rows:
        S2[r] = (obs.dot(Amat.T) + shift)[0]
    with must_not_raise(P, 'adjust_posterior on affinely re-expressed summaries; ' + ctx):
        adj2 = run(S2, obs.dot(Amat.T) + shift, req)
    for p in names:
        a, b = np.asarray(adj.outputs[p]), np.asarray(adj2.outputs[p])
        scale = max(tmag, np.abs(a).max())
        if a.shape != b.shape or not np.allclose(a, b, rtol=1e-6, atol=1e-6 * scale):
            raise Violation('C17:adjust-not-affine-invariant', 'parameter %s changes by up to %.3g under an invertible affine map of the summaries; %s'
                            % (p, np.abs(a - b).max() if a.shape == b.shape else float('nan'), ctx))
    labels = ['k=%d' % k, 'params=%d' % len(pn)]
    if any(int_cols):
        labels.append('integer-typed-parameter')
    nonfin = (~fin_rows).any() or any((~np.isfinite(theta[:, j])).any() for j in range(len(pn)))
    if nonfin:
        labels.append('non-finite')
    if len(pn) >= 2 and any(not np.array_equal(masks[0], mk) for mk in masks[1:]):
        labels.append('per-parameter-masks-differ')
    if zero_rows:
        labels.append('zero-row')
    if req is not None and req != list(pn[:len(req)]):
        labels.append('requested-parameters-reordered-or-not-a-prefix')
    return CaseResult(labels, True if (k >= 2 and nonfin) else None)


# ------------------------------------------------------------------ model comparison

def strat_compare(tier):
    return st.fixed_dictionaries({
        'models': st.lists(st.fixed_dictionaries({'n': st.integers(1, 30), 'extra_sim': st.integers(0, 1000), 'sorted': st.booleans()}),
                           min_size=2, max_size=5),
        # prior weights: positive, or exactly 0 for some models (excluded a priori), as an array or a plain list
        'priors': st.one_of(st.none(), st.lists(st.floats(0.05, 5.0, allow_nan=False), min_size=5, max_size=5),
                            st.lists(st.one_of(st.just(0.0), st.integers(0, 3).map(float), st.floats(0.05, 5.0, allow_nan=False)), min_size=5, max_size=5)),
        'priors_form': st.sampled_from(['array', 'list']),
        'data_seed': st.integers(0, 10 ** 6), 'perm_seed': st.integers(0, 10 ** 6),
        # integer-valued (tied) discrepancies; cases whose ties at the cut belong to several models are ambiguous and skipped
        'ties': st.booleans(),
    })


def run_compare(case):
    from elfi.methods.model_selection import compare_models
    from elfi.methods.results import Sample
    rs = np.random.RandomState(case['data_seed'])
    specs = case['models']
    M = len(specs)
    total = sum(s['n'] for s in specs)
    if case.get('ties'):
        pool = rs.randint(0, max(3, total // 2), size=total).astype(float)     # many ties
    else:
        pool = rs.permutation(total * 3)[:total] * 0.37 + 0.01       # distinct discrepancies
    samples, chunks = [], []
    at = 0
    for s in specs:
        d = pool[at:at + s['n']].copy()
        at += s['n']
        if s['sorted']:
            d.sort()
        chunks.append(d)
        samples.append(Sample(method_name='test', outputs={'t': rs.rand(s['n']), 'd': d}, parameter_names=['t'],
                              discrepancy_name='d', n_sim=s['n'] + s['extra_sim']))
    priors = None if case['priors'] is None else np.array(case['priors'][:M])
    ctx = 'models=%r priors=%r data_seed=%d' % (specs, None if priors is None else priors.tolist(), case['data_seed'])
    def pform(pr):
        return None if pr is None else (list(map(float, pr)) if case.get('priors_form') == 'list' else np.array(pr, dtype=float))
    n_min0 = min(s['n'] for s in specs)
    if priors is not None:
        # degenerate: every model that owns one of the jointly smallest discrepancies is excluded a priori (0/0)
        order0 = np.argsort(np.concatenate(chunks), kind='stable')[:n_min0]
        owner = np.concatenate([[i] * len(c) for i, c in enumerate(chunks)])
        if priors[np.unique(owner[order0])].sum() == 0 or priors.sum() == 0:
            return CaseResult(['all-contributing-models-excluded'], None)
    with must_not_raise(P, 'compare_models; ' + ctx):
        got = np.asarray(compare_models(samples, pform(priors)))
    n_min = min(s['n'] for s in specs)
    cut = np.sort(np.concatenate(chunks))[n_min - 1]
    below = np.array([(c < cut).sum() for c in chunks], dtype=float)
    at = np.array([(c == cut).sum() for c in chunks], dtype=float)
    need = n_min - below.sum()                       # how many of the values equal to the cut belong to the n_min smallest
    if need < at.sum() and (at > 0).sum() > 1:
        return CaseResult(['ties-at-the-cut-ambiguous'], None)      # free choice among equal discrepancies of several models
    counts = below + np.where(at > 0, np.minimum(at, need), 0.0)
    ref = counts / np.array([s['n'] + s['extra_sim'] for s in specs], dtype=float)
    if priors is not None:
        ref = ref * priors
    ref = ref / ref.sum()
    if got.shape != (M,) or abs(got.sum() - 1.0) > 1e-12:
        raise Violation('C17:compare-sum', 'probabilities %r do not sum to one; %s' % (got.tolist(), ctx))
    if not np.allclose(got, ref, rtol=1e-12, atol=1e-15):
        raise Violation('C17:compare-value', 'compare_models gives %r, share of the %d jointly smallest discrepancies / n_sim x prior gives %r; %s'
                        % (got.tolist(), n_min, ref.tolist(), ctx))
    perm = np.random.RandomState(case['perm_seed']).permutation(M)
    got2 = np.asarray(compare_models([samples[i] for i in perm], pform(None if priors is None else priors[perm])))
    if not np.allclose(got2, got[perm], rtol=1e-12, atol=1e-15):
        raise Violation('C17:compare-permutation', 'reordering the models by %r gives %r instead of %r; %s' % (perm.tolist(), got2.tolist(), got[perm].tolist(), ctx))
    labels = ['models=%d' % M]
    unequal = len(set(s['n'] + s['extra_sim'] for s in specs)) > 1
    if unequal:
        labels.append('unequal-n_sim')
    if len(set(s['n'] for s in specs)) > 1:
        labels.append('unequal-n_samples')
    if any(not s['sorted'] for s in specs):
        labels.append('unsorted-discrepancies')
    if priors is not None:
        labels.append('prior-weights')
        if (priors == 0).any():
            labels.append('model-excluded-a-priori')
    if case.get('ties') and at.sum() > need:
        labels.append('ties-straddle-the-cut')
    return CaseResult(labels, True if unequal else None)


CHECK = Check(
    P, 'exploration',
    rule=('adjust: 12-80 (thorough 200) rows, 1-4 scalar summaries, 1-3 parameters on a real ElfiModel (observed Simulator + column '
          'Summaries) and a directly constructed Sample; nan/inf/-inf injected into summaries and individual parameters, rows whose '
          'summaries equal the observed ones, a random invertible affine re-expression. compare: 2-5 Samples with distinct pooled '
          'discrepancies (sorted or unsorted), different n_samples/n_sim, optional prior weights (positive or exactly 0, array or list), a permutation; adjust: parameters and summaries of magnitude 1e-9 / 1 / 1e6, integer-typed parameters. Non-trivial: adjust = '
          '>=2 summaries with >=1 non-finite row; compare = unequal n_sim.'),
    parts=[Part('adjust', run_adjust, strategy=strat_adjust, examples={'quick': 500, 'thorough': 24000}),
           Part('compare', run_compare, strategy=strat_compare, examples={'quick': 800, 'thorough': 48000})],
    assumptions=['regressors are well conditioned (at least k+4 finite rows, random normal summaries)',
                 'pooled discrepancies are distinct (ties at the cut leave the choice free)'],
    design_ref='DESIGN.md section 4, C17',
    technique='Hypothesis-generated samples against numpy lstsq / explicit-sort formulas; affine-invariance and permutation '
              'metamorphic relations',
    level_text='Exploration: every generated sample is adjusted and compared with an independent least-squares evaluation restricted '
               'to the finite rows (rtol 1e-7), zero rows must be bit-unchanged, an affine re-expression must not matter; model '
               'probabilities are compared with the explicit formula and under permutation.',
    level_note='Trusts numpy.linalg.lstsq; conditioning bounded by construction.')
