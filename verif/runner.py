"""Runner: seeds, tiers, sharding over processes, evidence and VIOLATION / KNOWN-FINDING output.

Parent mode  : run_check.py <Cxx> [--tier quick|thorough]
Worker mode  : run_check.py <Cxx> --worker <part> --shard k/n --out FILE     (internal)
Replay mode  : run_check.py <Cxx> --replay FILE

Exit status: 0 property held on everything explored (known findings are printed, not failed),
             1 at least one VIOLATION line was printed,
             2 harness error (a bug in the machinery, never reported as a violation).
"""

import argparse
import importlib
import json
import os
import random
import subprocess
import sys
import time
import traceback
import zlib
from collections import Counter

HERE = os.path.dirname(os.path.dirname(os.path.abspath(__file__)))


def _prepare_env():
    """Re-exec with a fixed hash seed and single-threaded BLAS; put the repo first on sys.path."""
    want = {'PYTHONHASHSEED': '0', 'OMP_NUM_THREADS': '1', 'OPENBLAS_NUM_THREADS': '1',
            'MKL_NUM_THREADS': '1', 'MPLBACKEND': 'Agg', 'NUMEXPR_NUM_THREADS': '1'}
    changed = False
    for k, v in want.items():
        if os.environ.get(k) != v:
            os.environ[k] = v
            changed = True
    if changed and os.environ.get('VERIF_REEXEC') != '1':
        os.environ['VERIF_REEXEC'] = '1'
        os.execv(sys.executable, [sys.executable] + sys.argv)
    repo = os.environ.get('VERIF_REPO', '/repo')
    deps = os.path.join(HERE, '.deps')
    for p in (deps, HERE, repo):
        if os.path.isdir(p):
            if p in sys.path:
                sys.path.remove(p)
            sys.path.insert(0, p)
    os.environ.setdefault('ELFI_VERIF_HOOKS', '1')
    tmp = os.path.join(HERE, '.tmp')
    os.makedirs(tmp, exist_ok=True)
    os.environ.setdefault('VERIF_TMP', tmp)


def _load_check(prop):
    mod = importlib.import_module('verif.checks.%s' % prop.lower())
    return mod.CHECK


def _assert_repo():
    import elfi
    repo = os.path.realpath(os.environ.get('VERIF_REPO', '/repo'))
    got = os.path.realpath(elfi.__file__)
    if not got.startswith(repo + os.sep):
        raise RuntimeError('elfi imported from %s, expected under %s' % (got, repo))


class Check(object):
    def __init__(self, property_id, level, rule, parts, assumptions=(), design_ref='',
                 level_text='', level_note='', technique=''):
        self.level_text = level_text
        self.level_note = level_note
        self.technique = technique
        self.property_id = property_id
        self.level = level
        self.rule = rule
        self.parts = list(parts)
        self.assumptions = list(assumptions)
        self.design_ref = design_ref

    def part(self, name):
        for p in self.parts:
            if p.name == name:
                return p
        raise KeyError(name)


# ----------------------------------------------------------------------------------------
# worker
# ----------------------------------------------------------------------------------------

class Stats(object):
    def __init__(self, seed):
        self.evaluations = 0
        self.nontrivial = set()
        self.classes = Counter()
        self.first = []
        self.reservoir = []
        self.excluded_known = Counter()
        self._rng = random.Random(seed)   # only chooses which cases are shown as samples
        self._seen = 0

    def record(self, case, res):
        from .core import key_hash
        self.evaluations += 1
        for lab in res.labels:
            self.classes[lab] += 1
        for sig, _ in res.known:
            self.excluded_known[sig] += 1
        if res.nontrivial is not None and res.nontrivial is not False:
            key = case if res.nontrivial is True else res.nontrivial
            self.nontrivial.add(key_hash(key))
            self._seen += 1
            if len(self.first) < 2:
                self.first.append(case)
            elif len(self.reservoir) < 2:
                self.reservoir.append(case)
            else:
                j = self._rng.randrange(self._seen)
                if j < 2:
                    self.reservoir[j] = case

    def to_json(self):
        return {'evaluations': self.evaluations, 'nontrivial': sorted(self.nontrivial),
                'classes': dict(self.classes), 'samples': self.first + self.reservoir,
                'excluded_known': dict(self.excluded_known)}


def _shard_seed(seed, part, shard):
    return (int(seed) * 1000003 + zlib.crc32(part.encode()) * 101 + shard) % (2 ** 63)


def worker(prop, part_name, shard, nshards, tier, seed, out_path, scale=1.0):
    from .core import Violation, canonical
    from . import findings
    cov = None
    if os.environ.get('VERIF_COVERAGE_DIR'):
        # measurement aid (tools/coverage_report.sh): which elfi lines the generated cases reach; never set by a registered command
        import coverage
        cov = coverage.Coverage(data_file=os.path.join(os.environ['VERIF_COVERAGE_DIR'], '.coverage.%s.%s.%d' % (prop, part_name, shard)),
                                source=[os.path.join(os.environ.get('VERIF_REPO', '/repo'), 'elfi')], branch=True)
        cov.start()
    check = _load_check(prop)
    part = check.part(part_name)
    _assert_repo()
    known = set(f.signature for f in findings.open_for(prop))
    t0 = time.time()
    result = {'part': part_name, 'shard': shard, 'violations': [], 'error': None}
    stats = Stats(seed)
    try:
        if part.enumerate_cases is not None:
            stats, viols = _run_enumeration(part, tier, shard, nshards, known, seed)
        else:
            stats, viols = _run_hypothesis(part, tier, shard, nshards, known, seed, scale)
        result['violations'] = viols
    except Exception:
        result['error'] = traceback.format_exc()
    result.update(stats.to_json())
    result['wall_s'] = time.time() - t0
    if cov is not None:
        cov.stop()
        cov.save()
    with open(out_path, 'w') as f:
        f.write(canonical(result))
    return 0


def _run_enumeration(part, tier, shard, nshards, known, seed):
    from .core import Violation
    stats = Stats(seed)
    viols = []
    seen_sigs = set()
    nfail = 0
    for case in part.enumerate_cases(tier, shard, nshards):
        try:
            res = part.run_case(case)
        except Violation as v:
            if v.signature in known:
                stats.excluded_known[v.signature] += 1
                stats.evaluations += 1
                continue
            nfail += 1
            if v.signature not in seen_sigs:
                seen_sigs.add(v.signature)
                viols.append({'signature': v.signature, 'message': v.message, 'case': case,
                              'detail': v.detail, 'part': part.name})
            if len(viols) >= 3 or nfail >= 10:
                break
            continue
        stats.record(case, res)
    return stats, viols


def _run_hypothesis(part, tier, shard, nshards, known, seed, scale):
    import hypothesis
    from hypothesis import HealthCheck, Phase, given, settings
    from .core import Violation
    n = max(1, int(part.examples[tier] * scale) // nshards)
    sseed = _shard_seed(seed, part.name, shard)
    phases = [Phase.generate, Phase.target]
    if part.shrink:
        phases.append(Phase.shrink)
    viols = []
    suppressed = set()
    stats = Stats(seed)
    for attempt in range(3):
        stats = Stats(seed)
        last = {}
        shrink_deadline = [None]
        attempt_deadline = None if attempt == 0 else time.time() + 90

        @hypothesis.seed(sseed)
        @settings(max_examples=n, database=None, deadline=None, derandomize=False,
                  report_multiple_bugs=False, phases=phases, print_blob=False,
                  suppress_health_check=[HealthCheck.too_slow, HealthCheck.data_too_large,
                                         HealthCheck.large_base_example],
                  verbosity=hypothesis.Verbosity.quiet)
        @given(part.strategy(tier))
        def test(case):
            if attempt_deadline is not None and time.time() > attempt_deadline:
                return   # later attempts only look for further root causes, under a wall budget
            if shrink_deadline[0] is not None and time.time() > shrink_deadline[0]:
                # shrinking budget used up: everything else 'passes' so Hypothesis stops
                # (its final replay then reports Flaky, handled below; `last` is the replay)
                return
            try:
                res = part.run_case(case)
            except Violation as v:
                if v.signature in known:
                    stats.excluded_known[v.signature] += 1
                    stats.evaluations += 1
                    return
                if v.signature in suppressed:
                    return
                if shrink_deadline[0] is None:
                    shrink_deadline[0] = time.time() + part.max_shrink_s
                last['case'] = case
                last['v'] = v
                raise
            stats.record(case, res)

        try:
            test()
        except Violation:
            v = last['v']
            viols.append({'signature': v.signature, 'message': v.message, 'case': last['case'],
                          'detail': v.detail, 'part': part.name})
            suppressed.add(v.signature)
            continue
        except hypothesis.errors.Flaky:
            if last:
                v = last['v']
                viols.append({'signature': v.signature, 'message': v.message + ' [hypothesis: flaky]',
                              'case': last['case'], 'detail': v.detail, 'part': part.name})
                suppressed.add(v.signature)
                continue
            raise
        else:
            break
    return stats, viols


# ----------------------------------------------------------------------------------------
# replay
# ----------------------------------------------------------------------------------------

def replay_file(prop, path):
    """Run the saved case directly (no Hypothesis).  Returns (signature or None, message)."""
    from .core import Violation
    check = _load_check(prop)
    with open(path) as f:
        rec = json.load(f)
    part = check.part(rec['part'])
    try:
        res = part.run_case(rec['case'])
    except Violation as v:
        return v.signature, v.message
    if res.known:
        return res.known[0]
    return None, 'passes'


# ----------------------------------------------------------------------------------------
# parent
# ----------------------------------------------------------------------------------------

def _spawn(prop, part, shard, nshards, tier, seed, out, scale, engine='hypothesis'):
    cmd = [sys.executable, os.path.join(HERE, 'run_check.py'), prop, '--worker', part,
           '--shard', '%d/%d' % (shard, nshards), '--tier', tier, '--out', out,
           '--scale', repr(scale), '--engine', engine]
    env = dict(os.environ)
    env['VERIF_SEED'] = str(seed)
    # output goes to a file: a PIPE that nobody drains blocks a chatty worker (elfi logs warnings) for ever
    logf = open(out + '.log', 'wb')
    p = subprocess.Popen(cmd, env=env, stdout=logf, stderr=subprocess.STDOUT)
    p._verif_log = out + '.log'
    logf.close()
    return p


def parent(prop, tier, seed, scale=1.0, only_parts=None, max_procs=None):
    from . import findings
    from .core import canonical, key_hash
    t0 = time.time()
    check = _load_check(prop)
    tmpdir = os.path.join(os.environ['VERIF_TMP'], 'run-%s-%d' % (prop, os.getpid()))
    os.makedirs(tmpdir, exist_ok=True)
    max_procs = max_procs or int(os.environ.get('VERIF_PROCS', '16'))
    lines = []
    violations = []
    harness_errors = []

    # 1. regress tier: committed reproducers of fixed defects and of open findings
    open_f = findings.open_for(prop)
    regress_dir = os.path.join(HERE, 'replays', 'regress')
    reg_files = sorted(f for f in os.listdir(regress_dir)
                       if f.startswith(prop + '-') and f.endswith('.json'))
    regress_run = 0
    if reg_files:
        out = os.path.join(tmpdir, 'regress.json')
        cmd = [sys.executable, os.path.join(HERE, 'run_check.py'), prop, '--regress', '--out', out]
        p = subprocess.run(cmd, stdout=subprocess.PIPE, stderr=subprocess.STDOUT)
        try:
            reg = json.load(open(out))
        except Exception:
            harness_errors.append('regress tier failed:\n' + p.stdout.decode(errors='replace')[-3000:])
            reg = {}
        open_by_replay = {os.path.basename(f.replay): f for f in open_f if f.replay}
        for fn in reg_files:
            r = reg.get(fn)
            if r is None:
                continue
            regress_run += 1
            if r.get('error'):
                harness_errors.append('regress %s: %s' % (fn, r['error']))
                continue
            sig = r['signature']
            if fn in open_by_replay:
                f = open_by_replay[fn]
                if sig == f.signature:
                    lines.append('KNOWN-FINDING: property=%s %s [%s]' % (prop, f.what, f.signature))
                elif sig is None:
                    # a listed finding is always announced; its reproducer depends on a numerical optimiser (D21) and may not land
                    # in the failing regime in every environment
                    lines.append('KNOWN-FINDING: property=%s %s [%s] (its reproducer did not fail in this run)' % (prop, f.what, f.signature))
                elif sig in set(g.signature for g in open_f):
                    # the reproducer ran into ANOTHER listed finding of this property first (the D21 symptoms share a regime)
                    lines.append('KNOWN-FINDING: property=%s %s [%s] (its reproducer met [%s] first)' % (prop, f.what, f.signature, sig))
                elif sig is not None:
                    violations.append({'signature': sig, 'message': r['message'],
                                       'replay': os.path.join('replays', 'regress', fn)})
            elif sig is not None:
                violations.append({'signature': sig, 'message': r['message'],
                                   'replay': os.path.join('replays', 'regress', fn)})

    # 2. generated parts, sharded
    jobs = []
    for part in check.parts:
        if only_parts and part.name not in only_parts:
            continue
        ns = part.shards[tier]
        for k in range(ns):
            jobs.append((part.name, k, ns, 'hypothesis'))
    fuzz_note = None
    if os.environ.get('VERIF_FUZZ', '1') != '0':
        from . import fuzz as _fuzz
        want = [(part.name, k, part.fuzz_shards[tier], 'atheris') for part in check.parts
                if (not only_parts or part.name in only_parts) and part.fuzz.get(tier, 0) > 0
                for k in range(part.fuzz_shards[tier])]
        if want and _fuzz.available():
            if os.environ.get('VERIF_FUZZ') == 'only':      # development aid: coverage-guided shards alone
                jobs = []
            jobs.extend(want)
        elif want:
            fuzz_note = 'atheris not importable: coverage-guided shards skipped'
    running = []
    results = []
    pending = list(jobs)
    while pending or running:
        while pending and len(running) < max_procs:
            pn, k, ns, engine = pending.pop(0)
            out = os.path.join(tmpdir, '%s-%s%d.json' % (pn, '' if engine == 'hypothesis' else 'fuzz', k))
            running.append((_spawn(prop, pn, k, ns, tier, seed, out, scale, engine), pn, k, out))
        still = []
        for proc, pn, k, out in running:
            rc = proc.poll()
            if rc is None:
                still.append((proc, pn, k, out))
                continue
            try:
                with open(proc._verif_log, 'rb') as lf:
                    lf.seek(max(0, os.path.getsize(proc._verif_log) - 20000))
                    text = lf.read().decode(errors='replace')
            except OSError:
                text = ''
            try:
                r = json.load(open(out))
                results.append(r)
                if rc != 0 and not r.get('error') and r.get('engine') == 'atheris':
                    harness_errors.append('fuzz worker %s/%d ended with rc=%s:\n%s' % (pn, k, rc, text[-3000:]))
            except Exception:
                harness_errors.append('worker %s/%d died (rc=%s):\n%s' % (pn, k, rc, text[-3000:]))
        running = still
        if running:
            time.sleep(0.05)

    evaluations = 0
    nontrivial = set()
    classes = Counter()
    excluded = Counter()
    samples = []
    per_part = {}
    engines = Counter()
    for r in results:
        engines[r.get('engine', 'hypothesis')] += r['evaluations']
        if r.get('skipped'):
            fuzz_note = r['skipped']
        if r.get('error'):
            harness_errors.append('worker %s/%s: %s' % (r['part'], r['shard'], r['error']))
        evaluations += r['evaluations']
        nontrivial.update((r['part'], h) for h in r['nontrivial'])
        for k, v in r['classes'].items():
            classes[r['part'] + ':' + k] += v
        for k, v in r['excluded_known'].items():
            excluded[k] += v
        pp = per_part.setdefault(r['part'], {'evaluations': 0, 'nontrivial': set(), 'wall_s': 0.0,
                                             'samples': []})
        pp['evaluations'] += r['evaluations']
        pp['nontrivial'].update(r['nontrivial'])
        pp['wall_s'] = max(pp['wall_s'], r['wall_s'])
        if len(pp['samples']) < 2:
            pp['samples'].extend(r['samples'][:2 - len(pp['samples'])])
        for v in r['violations']:
            violations.append(v)
    for pn, pp in per_part.items():
        for s in pp['samples']:
            samples.append({'part': pn, 'case': s})

    # 3. write replays for new violations
    found_dir = os.path.join(HERE, 'replays', 'found')
    os.makedirs(found_dir, exist_ok=True)
    seen = set()
    nviol = 0
    for v in violations:
        if 'replay' not in v:
            if v['signature'] in seen:
                continue
            seen.add(v['signature'])
            rec = {'property': prop, 'part': v['part'], 'case': v['case'],
                   'signature': v['signature'], 'message': v['message'], 'detail': v.get('detail'),
                   'seed': seed, 'tier': tier}
            fn = '%s-%s-%s.json' % (prop, seed, key_hash([v['signature'], v['case']]))
            path = os.path.join(found_dir, fn)
            with open(path, 'w') as f:
                f.write(json.dumps(json.loads(canonical(rec)), indent=1, sort_keys=True))
            v['replay'] = os.path.join('replays', 'found', fn)
        nviol += 1
        lines.append('VIOLATION property=%s replay=%s' % (prop, os.path.join(HERE, v['replay'])))
        lines.append('  signature=%s' % v['signature'])
        lines.append('  %s' % str(v['message'])[:1500])

    wall = time.time() - t0
    low = []
    for pn, pp in per_part.items():
        if pp['evaluations'] and len(pp['nontrivial']) < 0.05 * pp['evaluations']:
            low.append(pn)
    coverage = {
        'evaluations': evaluations + regress_run,
        'distinct_nontrivial': len(nontrivial),
        'rule': check.rule,
        'samples': samples[:12],
        'classes': dict(sorted(classes.items())),
        'parts': {pn: {'evaluations': pp['evaluations'], 'distinct_nontrivial': len(pp['nontrivial']),
                       'max_shard_wall_s': round(pp['wall_s'], 2)} for pn, pp in sorted(per_part.items())},
        'excluded_known': dict(excluded),
        'regress_replays': regress_run,
        'exhaustive': False,
        'explanation': ('harness errors: %d' % len(harness_errors)) if harness_errors else 'all shards completed',
        'engines': dict(engines),
    }
    if fuzz_note:
        coverage['explanation'] += '; ' + fuzz_note
    extra = getattr(check, 'coverage_extra', None)
    if extra:
        coverage.update(extra(tier, results))
    ev = {'property_id': prop, 'tier': tier, 'seed': int(seed), 'level': check.level,
          'coverage': coverage, 'assumptions': check.assumptions, 'wall_s': round(wall, 2),
          'violations': nviol}
    ev_path = os.path.join(HERE, 'evidence', '%s%s.json' % (prop, os.environ.get('VERIF_EVIDENCE_SUFFIX', '')))
    os.makedirs(os.path.dirname(ev_path), exist_ok=True)
    if not only_parts:
        with open(ev_path, 'w') as f:
            f.write(json.dumps(json.loads(canonical(ev)), indent=1, sort_keys=True) + '\n')

    for ln in lines:
        print(ln)
    print('%s tier=%s seed=%s evaluations=%d distinct_nontrivial=%d known_excluded=%d violations=%d wall=%.1fs'
          % (prop, tier, seed, coverage['evaluations'], coverage['distinct_nontrivial'],
             sum(excluded.values()), nviol, wall))
    for pn, pp in sorted(per_part.items()):
        print('  part %-22s evals=%-7d nontrivial=%-7d wall=%.1fs' % (pn, pp['evaluations'], len(pp['nontrivial']), pp['wall_s']))
    if low:
        print('  note: parts with <5%% non-trivial cases: %s' % ', '.join(low))
    try:
        import shutil
        shutil.rmtree(tmpdir)
    except OSError:
        pass
    if nviol:
        return 1
    if harness_errors:
        sys.stderr.write('HARNESS ERROR (not a violation):\n' + '\n'.join(harness_errors)[:8000] + '\n')
        return 2
    return 0


def regress(prop, out_path):
    regress_dir = os.path.join(HERE, 'replays', 'regress')
    res = {}
    for fn in sorted(os.listdir(regress_dir)):
        if not (fn.startswith(prop + '-') and fn.endswith('.json')):
            continue
        try:
            sig, msg = replay_file(prop, os.path.join(regress_dir, fn))
            res[fn] = {'signature': sig, 'message': msg}
        except Exception:
            res[fn] = {'error': traceback.format_exc()[-2000:]}
    with open(out_path, 'w') as f:
        json.dump(res, f)
    return 0


def main(argv=None):
    _prepare_env()
    ap = argparse.ArgumentParser()
    ap.add_argument('prop')
    ap.add_argument('--tier', default=os.environ.get('VERIF_TIER') or 'quick', choices=['quick', 'thorough'])
    ap.add_argument('--replay')
    ap.add_argument('--worker')
    ap.add_argument('--regress', action='store_true')
    ap.add_argument('--shard', default='0/1')
    ap.add_argument('--out')
    ap.add_argument('--scale', type=float, default=float(os.environ.get('VERIF_SCALE', '1.0')))
    ap.add_argument('--engine', default='hypothesis', choices=['hypothesis', 'atheris'])
    ap.add_argument('--parts', default=None, help='comma separated subset of parts (no evidence written)')
    a = ap.parse_args(argv)
    prop = a.prop.upper()
    try:
        seed = int(os.environ.get('VERIF_SEED') or '1')
    except ValueError:
        seed = zlib.crc32(os.environ['VERIF_SEED'].encode())
    if a.worker:
        k, n = a.shard.split('/')
        if a.engine == 'atheris':
            from .fuzz import fuzz_worker
            return fuzz_worker(prop, a.worker, int(k), int(n), a.tier, seed, a.out, a.scale)
        return worker(prop, a.worker, int(k), int(n), a.tier, seed, a.out, a.scale)
    if a.regress:
        return regress(prop, a.out)
    if a.replay:
        try:
            sig, msg = replay_file(prop, a.replay)
        except Exception:
            traceback.print_exc()
            return 2
        if sig is None:
            print('replay %s: passes' % a.replay)
            return 0
        from . import findings
        known = set(f.signature for f in findings.open_for(prop))
        if sig in known:
            print('KNOWN-FINDING: property=%s %s' % (prop, sig))
            print('  ' + msg[:1500])
            return 0
        print('VIOLATION property=%s replay=%s' % (prop, os.path.abspath(a.replay)))
        print('  signature=%s' % sig)
        print('  ' + msg[:3000])
        return 1
    return parent(prop, a.tier, seed, a.scale, a.parts.split(',') if a.parts else None)
