"""Coverage-guided engine: atheris (libFuzzer) drives the SAME strategies and the SAME oracles.

The byte string libFuzzer mutates is decoded into a case by Hypothesis itself
(``test.hypothesis.fuzz_one_input``), so a fuzzed case is a value of the part's strategy and the
replay file has the same format as everywhere else.  Coverage feedback comes from the elfi modules
only (``atheris.instrument_imports(include=['elfi'])``): an input is kept in the corpus when it makes
elfi take a branch no earlier input took.

Two adjustments make this work:

* Hypothesis' bytestring provider REJECTS a draw whose bits fall outside a bounded integer range; with
  the dozens of bounded draws of a structured case practically every mutated input is rejected and the
  fuzzer sees no signal.  ``patch_provider`` replaces the rejection with a reduction modulo the range
  (a few extra bits keep it close to uniform).  Only the decoding of fuzz bytes is affected.
* libFuzzer ends the process with ``_exit``; results are therefore written from inside the callback
  (every few cases and at the last run).

A violation found here is shrunk by ``json_shrink`` (greedy structural minimisation of the JSON case under
"still fails with the same signature"), not by Hypothesis.
"""

import copy
import importlib
import json
import os
import pkgutil
import random
import sys
import time
import traceback


def patch_provider():
    from hypothesis.internal.conjecture.providers import BytestringProvider

    def draw_integer(self, min_value=None, max_value=None, *, weights=None, shrink_towards=0):
        if min_value is None and max_value is None:
            min_value, max_value = -(2 ** 127), 2 ** 127 - 1
        elif min_value is None:
            min_value = max_value - 2 ** 64
        elif max_value is None:
            max_value = min_value + 2 ** 64
        if min_value == max_value:
            return min_value
        span = max_value - min_value
        return min_value + self._draw_bits(span.bit_length() + 8) % (span + 1)

    BytestringProvider.draw_integer = draw_integer


# ----------------------------------------------------------------------------------------
# generic shrinking of a JSON case
# ----------------------------------------------------------------------------------------

def _paths(obj, prefix=()):
    yield prefix, obj
    if isinstance(obj, dict):
        for k in sorted(obj):
            for x in _paths(obj[k], prefix + (k,)):
                yield x
    elif isinstance(obj, list):
        for i, v in enumerate(obj):
            for x in _paths(v, prefix + (i,)):
                yield x


def _get(obj, path):
    for p in path:
        obj = obj[p]
    return obj


def _set(obj, path, value):
    obj = copy.deepcopy(obj)
    if not path:
        return value
    cur = obj
    for p in path[:-1]:
        cur = cur[p]
    cur[path[-1]] = value
    return obj


def _candidates(value):
    if isinstance(value, bool):
        if value:
            yield False
    elif isinstance(value, int):
        for c in (0, 1, value // 2, value - 1 if value > 0 else value + 1):
            if c != value and abs(c) <= abs(value):
                yield c
    elif isinstance(value, float):
        if value != value:
            return
        for c in (0.0, 1.0, float(round(value)), float(round(value, 1)), float(round(value, 3))):
            if c != value and abs(c) <= abs(value) + 1:
                yield c
    elif isinstance(value, list):
        n = len(value)
        k = n // 2
        while k >= 1:
            for i in range(0, n - k + 1, k):
                yield value[:i] + value[i + k:]
            k //= 2


def json_shrink(case, fails, budget_s=60.0):
    """Greedy minimisation: ``fails(candidate)`` is True when the candidate still fails the same way.

    Any exception inside ``fails`` (a candidate outside the domain of the harness) counts as "does not fail".
    """
    case = json.loads(json.dumps(case))
    t_end = time.time() + budget_s
    improved = True
    while improved and time.time() < t_end:
        improved = False
        for path, value in list(_paths(case)):
            try:
                cur = _get(case, path)
            except (KeyError, IndexError, TypeError):
                continue          # the structure changed under us
            for cand in _candidates(cur):
                if time.time() > t_end:
                    return case
                trial = _set(case, path, cand)
                try:
                    ok = fails(trial)
                except BaseException:
                    ok = False
                if ok:
                    case = trial
                    improved = True
                    break
    return case


# ----------------------------------------------------------------------------------------
# worker
# ----------------------------------------------------------------------------------------

def available():
    try:
        import atheris  # noqa: F401
        return True
    except Exception:
        return False


def fuzz_worker(prop, part_name, shard, nshards, tier, seed, out_path, scale=1.0):
    from .runner import Stats, _load_check, _assert_repo, _shard_seed, HERE
    from .core import Violation, canonical
    from . import findings
    result = {'part': part_name, 'shard': shard, 'violations': [], 'error': None, 'engine': 'atheris',
              'evaluations': 0, 'nontrivial': [], 'classes': {}, 'samples': [], 'excluded_known': {}, 'wall_s': 0.0}

    def dump():
        tmp = out_path + '.part'
        with open(tmp, 'w') as f:
            f.write(canonical(result))
        os.replace(tmp, out_path)

    try:
        import atheris
    except Exception as e:
        result['skipped'] = 'atheris not importable: %r' % (e,)
        dump()
        return 0
    t0 = time.time()
    with atheris.instrument_imports(include=['elfi'], enable_loader_override=False):
        import elfi
        for mi in pkgutil.walk_packages(elfi.__path__, 'elfi.'):
            if '.examples' in mi.name or 'testbench' in mi.name or 'visualization' in mi.name:
                continue
            try:
                importlib.import_module(mi.name)
            except Exception:
                pass
    _assert_repo()
    import hypothesis
    from hypothesis import HealthCheck, given, settings
    patch_provider()
    check = _load_check(prop)
    part = check.part(part_name)
    known = set(f.signature for f in findings.open_for(prop))
    runs = max(8, int(part.fuzz[tier] * scale) // nshards)
    sseed = _shard_seed(seed, part.name + '/fuzz', shard)
    stats = Stats(seed)
    suppressed = set()
    calls = [0]
    last_dump = [time.time()]

    def sync():
        result.update(stats.to_json())
        result['wall_s'] = time.time() - t0
        result['fuzz_calls'] = calls[0]
        dump()
        last_dump[0] = time.time()

    def judge(case):
        try:
            part.run_case(case)
        except Violation as v:
            return v.signature
        return None

    @settings(database=None, deadline=None, suppress_health_check=list(HealthCheck),
              verbosity=hypothesis.Verbosity.quiet)
    @given(part.strategy(tier))
    def test(case):
        try:
            res = part.run_case(case)
        except Violation as v:
            if v.signature in known:
                stats.excluded_known[v.signature] += 1
                stats.evaluations += 1
                return
            if v.signature in suppressed or len(suppressed) >= 3:
                return
            suppressed.add(v.signature)
            small = case
            if part.shrink:
                sig = v.signature
                small = json_shrink(case, lambda c: judge(c) == sig, min(part.max_shrink_s, 90))
                try:
                    part.run_case(small)
                    small, msg, detail = case, v.message, v.detail     # shrunk case stopped failing: keep the original
                except Violation as v2:
                    msg, detail = v2.message, v2.detail
                except Exception:
                    small, msg, detail = case, v.message, v.detail
            else:
                msg, detail = v.message, v.detail
            result['violations'].append({'signature': v.signature, 'message': msg + ' [engine: atheris]',
                                         'case': small, 'detail': detail, 'part': part.name})
            sync()
            return
        stats.record(case, res)

    def one(data):
        calls[0] += 1
        try:
            test.hypothesis.fuzz_one_input(data)
        except (KeyboardInterrupt, SystemExit):
            raise
        except BaseException:
            # an exception that is not a Violation is a bug of the harness (or an elfi exception the check does
            # not wrap): report it as a harness error, never as a violation
            result['error'] = traceback.format_exc()[-4000:]
            sync()
            os._exit(3)
        if calls[0] >= runs - 1 or time.time() - last_dump[0] > 2.0:
            sync()

    corpus = out_path + '.corpus'
    os.makedirs(corpus, exist_ok=True)
    rng = random.Random(sseed)
    for i in range(8):
        with open(os.path.join(corpus, 'seed%d' % i), 'wb') as f:
            f.write(bytes(rng.getrandbits(8) for _ in range(rng.choice([256, 1024, 2048, 4096]))))
    committed = os.path.join(HERE, 'replays', 'corpus', prop, part_name)
    args = [sys.argv[0], '-runs=%d' % runs, '-seed=%d' % (sseed % (2 ** 31 - 1) + 1), '-max_len=8192',
            '-len_control=0', '-timeout=86400', '-rss_limit_mb=0', '-print_final_stats=1', '-verbosity=0',
            '-artifact_prefix=%s/' % corpus, corpus]
    if os.path.isdir(committed):
        args.append(committed)
    sync()
    atheris.Setup(args, one)
    atheris.Fuzz()
    sync()
    return 0
