"""Coverage-guided engine: atheris (libFuzzer) drives the SAME strategies and the SAME oracles.

The byte string libFuzzer mutates is decoded into a case by Hypothesis itself
(``test.hypothesis.fuzz_one_input``), so a fuzzed case is a value of the part's strategy and the
replay file has the same format as everywhere else.  Coverage feedback comes from the elfi modules
only (``atheris.instrument_imports(include=['elfi'])``): an input is kept in the corpus when it makes
elfi take a branch no earlier input took.

Two adjustments make this work:

* Hypothesis' bytestring provider REJECTS a draw whose bits fall outside a bounded integer range; with
  the dozens of bounded draws of a structured case practically every mutated input is rejected and the
  fuzzer sees no signal.  ``patch_provider`` replaces the rejection with a reduction modulo the range
  (a few extra bits keep it close to uniform).  Only the decoding of fuzz bytes is affected.
* libFuzzer ends the process with ``_exit``; results are therefore written from inside the callback
  (every few cases and at the last run).

A violation found here is shrunk by Hypothesis: ``fuzz_one_input`` stores the failing choice sequence in an
in-memory example database, and an ordinary run of the same test with the phases (reuse, shrink) replays and
minimises it INSIDE the strategy's domain (a structural shrinker working on the JSON case left the domain -
batch size 0, dangling parents - and reported nonsense; it was removed).
"""

import copy
import importlib
import json
import os
import pkgutil
import random
import sys
import time
import traceback


def patch_provider():
    from hypothesis.internal.conjecture.providers import BytestringProvider

    def draw_integer(self, min_value=None, max_value=None, *, weights=None, shrink_towards=0):
        if min_value is None and max_value is None:
            min_value, max_value = -(2 ** 127), 2 ** 127 - 1
        elif min_value is None:
            min_value = max_value - 2 ** 64
        elif max_value is None:
            max_value = min_value + 2 ** 64
        if min_value == max_value:
            return min_value
        span = max_value - min_value
        return min_value + self._draw_bits(span.bit_length() + 8) % (span + 1)

    BytestringProvider.draw_integer = draw_integer


# ----------------------------------------------------------------------------------------
# worker
# ----------------------------------------------------------------------------------------

def available():
    try:
        import atheris  # noqa: F401
        return True
    except Exception:
        return False


def fuzz_worker(prop, part_name, shard, nshards, tier, seed, out_path, scale=1.0):
    from .runner import Stats, _load_check, _assert_repo, _shard_seed, HERE
    from .core import Violation, canonical
    from . import findings
    result = {'part': part_name, 'shard': shard, 'violations': [], 'error': None, 'engine': 'atheris',
              'evaluations': 0, 'nontrivial': [], 'classes': {}, 'samples': [], 'excluded_known': {}, 'wall_s': 0.0}

    def dump():
        tmp = out_path + '.part'
        with open(tmp, 'w') as f:
            f.write(canonical(result))
        os.replace(tmp, out_path)

    try:
        import atheris
    except Exception as e:
        result['skipped'] = 'atheris not importable: %r' % (e,)
        dump()
        return 0
    t0 = time.time()
    with atheris.instrument_imports(include=['elfi'], enable_loader_override=False):
        import elfi
        for mi in pkgutil.walk_packages(elfi.__path__, 'elfi.'):
            if '.examples' in mi.name or 'testbench' in mi.name or 'visualization' in mi.name:
                continue
            if mi.name.startswith('elfi.clients.') and mi.name != 'elfi.clients.native':
                continue     # importing a client module makes it the default client (module-level set_as_default())
            try:
                importlib.import_module(mi.name)
            except Exception:
                pass
    _assert_repo()
    import hypothesis
    from hypothesis import HealthCheck, given, settings
    patch_provider()
    check = _load_check(prop)
    part = check.part(part_name)
    known = set(f.signature for f in findings.open_for(prop))
    runs = max(8, int(part.fuzz[tier] * scale) // nshards)
    sseed = _shard_seed(seed, part.name + '/fuzz', shard)
    stats = Stats(seed)
    suppressed = set()
    calls = [0]
    last_dump = [time.time()]

    def sync():
        result.update(stats.to_json())
        result['wall_s'] = time.time() - t0
        result['fuzz_calls'] = calls[0]
        dump()
        last_dump[0] = time.time()

    from hypothesis import Phase
    from hypothesis.database import InMemoryExampleDatabase
    last = {}
    shrink_deadline = [None]

    @settings(database=InMemoryExampleDatabase(), deadline=None, suppress_health_check=list(HealthCheck),
              verbosity=hypothesis.Verbosity.quiet, phases=[Phase.reuse, Phase.shrink], report_multiple_bugs=False,
              print_blob=False, max_examples=1)
    @given(part.strategy(tier))
    def test(case):
        if shrink_deadline[0] is not None and time.time() > shrink_deadline[0]:
            return
        try:
            res = part.run_case(case)
        except Violation as v:
            if v.signature in known:
                if shrink_deadline[0] is None:
                    stats.excluded_known[v.signature] += 1
                    stats.evaluations += 1
                return
            if v.signature in suppressed or len(suppressed) >= 3:
                return
            last['case'] = case
            last['v'] = v
            raise
        if shrink_deadline[0] is None:
            stats.record(case, res)

    def found():
        """A new violation came out of fuzz_one_input: minimise it with Hypothesis (replay from the database + shrink)."""
        v0, case0 = last['v'], last['case']
        if part.shrink:
            shrink_deadline[0] = time.time() + min(part.max_shrink_s, 90)
            try:
                test()
            except Violation:
                pass
            except Exception:
                pass            # Flaky etc.: `last` holds the smallest failing case seen
            shrink_deadline[0] = None
        v, case = last['v'], last['case']
        if v.signature != v0.signature:
            v, case = v0, case0
        suppressed.add(v0.signature)
        result['violations'].append({'signature': v.signature, 'message': v.message + ' [engine: atheris]',
                                     'case': case, 'detail': v.detail, 'part': part.name})
        last.clear()
        sync()

    def one(data):
        calls[0] += 1
        try:
            test.hypothesis.fuzz_one_input(data)
        except (KeyboardInterrupt, SystemExit):
            raise
        except Violation:
            found()
        except BaseException:
            # an exception that is not a Violation is a bug of the harness (or an elfi exception the check does
            # not wrap): report it as a harness error, never as a violation
            result['error'] = traceback.format_exc()[-4000:]
            sync()
            os._exit(3)
        if calls[0] >= runs - 1 or time.time() - last_dump[0] > 2.0:
            sync()

    corpus = out_path + '.corpus'
    os.makedirs(corpus, exist_ok=True)
    rng = random.Random(sseed)
    for i in range(8):
        with open(os.path.join(corpus, 'seed%d' % i), 'wb') as f:
            f.write(bytes(rng.getrandbits(8) for _ in range(rng.choice([256, 1024, 2048, 4096]))))
    committed = os.path.join(HERE, 'replays', 'corpus', prop, part_name)
    args = [sys.argv[0], '-runs=%d' % runs, '-seed=%d' % (sseed % (2 ** 31 - 1) + 1), '-max_len=8192',
            '-len_control=0', '-timeout=86400', '-rss_limit_mb=0', '-print_final_stats=1', '-verbosity=0',
            '-artifact_prefix=%s/' % corpus, corpus]
    if os.path.isdir(committed):
        args.append(committed)
    sync()
    atheris.Setup(args, one)
    atheris.Fuzz()
    sync()
    return 0
