"""Numeric elfi models built from JSON descriptions, with a test-owned logging simulator.

Shared by C01, C04, C05, C07.  The simulator appends (batch_index, params, output) to LOG in the
process that executes it: that log - not an elfi pool - is the independent record of what was
simulated.  All functions are module level (picklable).
"""

from functools import partial

import numpy as np
from hypothesis import strategies as st

LOG = []          # (batch_index, [param arrays], sim output)
CALLS = []        # (node kind, batch_index) for operations that declare meta

PNAMES = ['t', 'a', 'z', 'Sx', 'b2', 'U', 'mu']


def reset():
    del LOG[:]
    del CALLS[:]


def sim(*params, batch_size=1, random_state=None, meta=None, kind='float', width=1):
    p = np.column_stack([np.asarray(x, dtype=float).reshape(batch_size, -1).sum(axis=1) for x in params])
    noise = random_state.randn(batch_size, width)
    out = p.sum(axis=1)[:, None] + noise
    if kind == 'int':
        out = np.round(out * 2)          # many ties
    elif kind == 'coarse':
        out = np.round(out)              # very many ties
    if width == 1:
        out = out[:, 0]
    LOG.append((meta['batch_index'], [np.array(x).copy() for x in params], out.copy()))
    return out


def rid(batch_size=1, random_state=None, meta=None):
    """Identity of every draw: batch_index * batch_size + position."""
    return meta['batch_index'] * batch_size + np.arange(batch_size)


def summ(s, col=0):
    return s if s.ndim == 1 else s[:, col]


def vec_summ(s):
    """A vector-valued summary (batch, 2)."""
    s2 = s if s.ndim == 2 else s[:, None]
    return np.column_stack([s2.sum(axis=1), s2.max(axis=1) * 0.5])


def disc(*s, observed=None, infcut=None, dmag=1.0):
    d = np.abs(np.column_stack(s) - np.column_stack(observed)).sum(axis=1)
    if infcut is not None:
        d = np.where(d > infcut, np.inf, d)
    return d * dmag         # overall magnitude of the discrepancies (a unit), 1 unless the description says otherwise


def model_desc(draw_hier=True):
    """Hypothesis strategy for a model description."""
    prior = st.sampled_from(['uniform', 'normal', 'randint'] + (['child'] if draw_hier else []))
    return st.fixed_dictionaries({
        'pnames': st.lists(st.sampled_from(PNAMES), min_size=1, max_size=3, unique=True),
        'priors': st.lists(prior, min_size=3, max_size=3),
        'kind': st.sampled_from(['float', 'float', 'int', 'coarse']),
        'width': st.integers(1, 3),
        'vec_summary': st.booleans(),
        'disc': st.sampled_from(['custom', 'custom', 'euclidean', 'cityblock']),
        'infcut': st.sampled_from([None, None, 1.5, 3.0]),
        # unit of the custom discrepancy: uniformly tiny (1e-9) or large (1e9) discrepancies are as valid as those of order one
        'dmag': st.sampled_from([1.0, 1.0, 1.0, 1e-9, 1e9]),
    })


def build(desc, name='verifmodel'):
    """Build the elfi model.  Returns (model, info) with info['sums'] the summary node names."""
    import elfi
    m = elfi.ElfiModel(name=name)
    ps = []
    for i, pn in enumerate(desc['pnames']):
        kind = desc['priors'][i]
        if kind == 'child' and not ps:
            kind = 'normal'
        if kind == 'uniform':
            p = elfi.Prior('uniform', 0, 1, model=m, name=pn)
        elif kind == 'normal':
            p = elfi.Prior('norm', 0, 1, model=m, name=pn)
        elif kind == 'randint':
            p = elfi.Prior('randint', 0, 4, model=m, name=pn)
        else:
            p = elfi.Prior('norm', ps[-1], 0.5, model=m, name=pn)
        ps.append(p)
    w = desc['width']
    obs = np.zeros((1, w)) if w > 1 else np.zeros(1)
    S = elfi.Simulator(partial(sim, kind=desc['kind'], width=w), *ps, observed=obs, model=m, name='S')
    S.uses_meta = True
    R = elfi.Simulator(rid, model=m, name='rid')
    R.uses_meta = True
    sums = [elfi.Summary(partial(summ, col=c), S, model=m, name='s%d' % c) for c in range(w)]
    extra = []
    if desc.get('vec_summary'):
        elfi.Summary(vec_summ, S, model=m, name='vs')
        extra.append('vs')
    if desc['disc'] == 'custom':
        elfi.Discrepancy(partial(disc, infcut=desc.get('infcut'), dmag=float(desc.get('dmag', 1.0))), *sums, model=m, name='d')
    elif desc['disc'] == 'adaptive':
        elfi.AdaptiveDistance(*sums, model=m, name='d')
    else:
        elfi.Distance(desc['disc'], *sums, model=m, name='d')
    return m, {'sums': ['s%d' % c for c in range(w)], 'extra': extra}


def recompute(desc, log):
    """From the simulator log recompute every draw's params, summaries and discrepancy (independently of elfi)."""
    from scipy.spatial.distance import cdist
    log = sorted(log, key=lambda r: r[0])
    nparams = len(desc['pnames'])
    params = [np.concatenate([np.asarray(l[1][i]) for l in log]) for i in range(nparams)]
    simout = np.concatenate([l[2] for l in log])
    w = desc['width']
    sums = [summ(simout, c) for c in range(w)]
    out = {'params': params, 'sums': sums, 'sim': simout}
    if desc.get('vec_summary'):
        out['vs'] = vec_summ(simout)
    obs = tuple(np.zeros(1) for _ in range(w))
    if desc['disc'] == 'custom':
        D = disc(*sums, observed=obs, infcut=desc.get('infcut'), dmag=float(desc.get('dmag', 1.0)))
    elif desc['disc'] == 'adaptive':
        X = np.column_stack(sums)
        D = np.sqrt((X ** 2).sum(axis=1))                 # first-stage distance: plain Euclidean to the zero observation
        sd = X.std(axis=0)                                # population sd of all consumed summary rows
        out['scale'] = sd
        with np.errstate(divide='ignore', invalid='ignore'):
            out['d_new'] = np.sqrt(((X / sd) ** 2).sum(axis=1))
    else:
        D = cdist(np.column_stack(sums), np.zeros((1, w)), metric=desc['disc'])[:, 0]
    out['d'] = D
    return out
