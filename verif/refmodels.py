"""Independent reference implementations used as oracles (written from the definitions)."""

import functools
from fractions import Fraction

import numpy as np


@functools.lru_cache(maxsize=4096)
def sub_seed_table(seed, high, upto):
    """First `upto` distinct values, in first-occurrence order, of the one-at-a-time stream
    RandomState(seed).randint(high, dtype=uint32).  This is the definition of the batch sub-seeds:
    sub_seed(seed, i) is entry i."""
    rs = np.random.RandomState(seed)
    seen = set()
    order = []
    n_dups = 0
    guard = 0
    while len(order) < upto:
        v = int(rs.randint(high, dtype='uint32'))
        guard += 1
        if v in seen:
            n_dups += 1
        else:
            seen.add(v)
            order.append(v)
        if guard > 1000 * (upto + 10):
            raise RuntimeError('reference stream does not produce enough distinct values')
    return tuple(order), n_dups


def ref_sub_seed(seed, index, high=2 ** 31):
    return sub_seed_table(int(seed), int(high), int(index) + 1)[0][int(index)]


def weighted_quantile_ok(x, w, alpha, q, eps=Fraction(1, 10 ** 12)):
    """Exact-rational predicate of C13: q is an element of x, W(<=q) >= alpha-eps, W(<q) <= alpha+eps."""
    xs = [float(v) for v in np.asarray(x).ravel()]
    ws = [Fraction(float(v)) for v in np.asarray(w).ravel()]
    tot = sum(ws)
    if q not in xs:
        return False, 'not an element'
    le = sum(wi for xi, wi in zip(xs, ws) if xi <= q) / tot
    lt = sum(wi for xi, wi in zip(xs, ws) if xi < q) / tot
    a = Fraction(float(alpha))
    if le < a - eps:
        return False, 'W(<=q)=%s < alpha=%s' % (float(le), float(a))
    if lt > a + eps:
        return False, 'W(<q)=%s > alpha=%s' % (float(lt), float(a))
    return True, ''
