"""A ClientBase implementation whose readiness answers and task execution order are generated data.

The schedule is a list of small integers consumed cyclically.  At every `apply`, `is_ready` and
`get_result` call the client may first execute some outstanding tasks in a schedule-chosen order
(workers finishing in the background).  `is_ready` answers True only for executed tasks (and may
lag: answer False although the task is done); `get_result` executes the task on demand if no
'worker' has done it yet (a blocking wait).  This spans lazy (native-like), eager in-order
(pool-like), out-of-order and laggy clients while never doing anything a ClientBase may not do
(each task executed at most once, results returned only for live tasks).

Everything the client sees is recorded in `events`.
"""

import itertools

import elfi.client


class ProtocolError(Exception):
    pass


class SchedClient(elfi.client.ClientBase):
    def __init__(self, schedule=(), num_cores=1, lag=True):
        self.schedule = list(schedule) or [0]
        self._p = 0
        self.tasks = {}            # id -> dict(state, call, result, batch_index)
        self._ids = itertools.count()
        self._num_cores = num_cores
        self.lag = lag
        self.events = []           # (kind, task id, batch index, outstanding after)
        self.max_outstanding = 0
        self.protocol_errors = []
        self.executed_order = []

    # -- schedule
    def _next(self):
        v = self.schedule[self._p % len(self.schedule)]
        self._p += 1
        return int(v)

    def _batch_index_of(self, args):
        try:
            net = args[0]
            return int(net.nodes['_meta']['output']['batch_index'])
        except Exception:
            return None

    def _execute(self, tid):
        t = self.tasks[tid]
        if t['state'] != 'pending':
            return
        kallable, args, kwargs = t['call']
        t['result'] = kallable(*args, **kwargs)
        t['state'] = 'done'
        t['call'] = None
        self.executed_order.append(t['batch_index'])

    def _advance(self, maxk, exclude=None):
        k = min(maxk, (0, 0, 1, 2)[self._next() % 4])
        for _ in range(k):
            pend = [tid for tid, t in self.tasks.items() if t['state'] == 'pending' and tid != exclude]
            if not pend:
                return
            self._execute(pend[self._next() % len(pend)])

    # -- ClientBase API
    def apply(self, kallable, *args, **kwargs):
        tid = next(self._ids)
        bi = self._batch_index_of(args)
        self.tasks[tid] = {'state': 'pending', 'call': (kallable, args, kwargs), 'result': None, 'batch_index': bi}
        self.max_outstanding = max(self.max_outstanding, len(self.tasks))
        self.events.append(('submit', tid, bi, len(self.tasks)))
        self._advance(2)
        return tid

    def apply_sync(self, kallable, *args, **kwargs):
        return kallable(*args, **kwargs)

    def is_ready(self, task_id):
        self._advance(1)
        t = self.tasks.get(task_id)
        if t is None:
            self.protocol_errors.append('is_ready on unknown/removed task %r' % task_id)
            return False
        ans = t['state'] == 'done'
        if ans and self.lag and self._next() % 4 == 0:
            ans = False
        self.events.append(('is_ready=%s' % ans, task_id, t['batch_index'], len(self.tasks)))
        return ans

    def get_result(self, task_id):
        t = self.tasks.get(task_id)
        if t is None:
            self.protocol_errors.append('get_result on unknown/removed task %r' % task_id)
            raise ProtocolError('get_result on unknown/removed task %r' % task_id)
        # other workers may finish while the caller blocks
        self._advance(2, exclude=task_id)
        self._execute(task_id)
        self.tasks.pop(task_id)
        self.events.append(('get_result', task_id, t['batch_index'], len(self.tasks)))
        return t['result']

    def remove_task(self, task_id):
        t = self.tasks.pop(task_id, None)
        self.events.append(('remove', task_id, None if t is None else t['batch_index'], len(self.tasks)))

    def reset(self):
        self.tasks.clear()
        self.events.append(('reset', None, None, 0))

    @property
    def num_cores(self):
        return self._num_cores

    # -- summaries for the oracle
    def consumed(self):
        return [e[2] for e in self.events if e[0] == 'get_result']

    def removed(self):
        return [e[2] for e in self.events if e[0] == 'remove']


def install(client):
    elfi.client.set_client(client)


def restore_native():
    import elfi.clients.native as native
    elfi.client.set_client(native.Client())
