"""Picklable symbolic operations and a call log (used by C02, C03, C05, C14).

Every operation returns a *term* describing exactly what it was called with:
    ('T', node_name, (positional args...), ((kw, value), ... sorted))
`random_state` is replaced by the token 'RS' (or, for drawing operations, by the values drawn),
`meta` is reduced to its documented, history-independent keys.  Calls are counted per node name
in CALLS and appended to LOG (process-local).
"""

from collections import Counter

import numpy as np

CALLS = Counter()
LOG = []


def reset():
    CALLS.clear()
    del LOG[:]


def canon(x):
    """Canonical, comparable form of a term (tuples, python scalars)."""
    if isinstance(x, (tuple, list)):
        return tuple(canon(y) for y in x)
    if isinstance(x, np.generic):
        return x.item()
    if isinstance(x, np.ndarray):
        return ('ndarray',) + tuple(canon(y) for y in x.tolist())
    if isinstance(x, dict):
        return ('dict',) + tuple(sorted((k, canon(v)) for k, v in x.items()))
    return x


def clean_kw(kw):
    out = []
    for k, v in sorted(kw.items()):
        if k == 'random_state':
            v = 'RS'
        elif k == 'meta':
            v = ('meta', v['batch_index'], v['master_seed'], v['model_name'])
        out.append((k, v))
    return tuple(out)


def op(name, *args, **kw):
    """Deterministic-looking operation: returns the term of its call."""
    CALLS[name] += 1
    LOG.append(name)
    return ('T', name, tuple(args), clean_kw(kw))


class TermDist(object):
    """A 'distribution' whose rvs returns the term of its call (for Prior nodes)."""

    def __init__(self, name):
        self.name_ = name

    def rvs(self, *params, size=None, random_state=None):
        CALLS[self.name_] += 1
        LOG.append(self.name_)
        return ('T', self.name_, tuple(params), (('random_state', 'RS'), ('size', size)))


# --- drawing operations (C02): consume the generator they are handed and report the draws

def draw_op(name, ndraw, *args, **kw):
    rs = kw.get('random_state')
    draws = ()
    if rs is not None:
        draws = tuple(float(v) for v in rs.random_sample(ndraw))
    CALLS[name] += 1
    LOG.append((name, draws))
    kw2 = dict(kw)
    if rs is not None:
        kw2['random_state'] = 'RS'
    t = clean_kw(kw2)
    return ('T', name, tuple(args), t, draws)


class DrawDist(object):
    def __init__(self, name, ndraw):
        self.name_ = name
        self.ndraw = ndraw

    def rvs(self, *params, size=None, random_state=None):
        draws = tuple(float(v) for v in random_state.random_sample(self.ndraw))
        CALLS[self.name_] += 1
        LOG.append((self.name_, draws))
        return ('T', self.name_, tuple(params), (('size', size),), draws)
