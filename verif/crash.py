"""Fork/kill fault injector for elfi.store.

A generated history of store operations is replayed in a forked child.  `open` is shadowed inside
the `elfi.store` namespace by a proxy whose file objects number every low-level write, truncate,
flush, seek (a seek flushes Python's write buffer) and close - before and after - plus the memmap
slice assignment of NpyArray.__setitem__.  At the k-th such point the child calls os._exit(): Python
level buffers are lost and no destructor runs, exactly like SIGKILL.  Completed operations are
reported through a pipe so that the parent knows between which logical states the kill happened.
"""

import os
import pickle

import numpy as np


class _Proxy(object):
    def __init__(self, f, inj):
        object.__setattr__(self, '_f', f)
        object.__setattr__(self, '_inj', inj)

    def _wrap(self, name, *a, **k):
        self._inj.point(name + ':before')
        r = getattr(self._f, name)(*a, **k)
        self._inj.point(name + ':after')
        return r

    def write(self, *a, **k):
        return self._wrap('write', *a, **k)

    def truncate(self, *a, **k):
        return self._wrap('truncate', *a, **k)

    def flush(self, *a, **k):
        return self._wrap('flush', *a, **k)

    def close(self, *a, **k):
        return self._wrap('close', *a, **k)

    def seek(self, *a, **k):
        return self._wrap('seek', *a, **k)

    def __getattr__(self, name):
        return getattr(self._f, name)

    def __enter__(self):
        return self

    def __exit__(self, *a):
        self.close()


class Injector(object):
    def __init__(self, kill_at=None):
        self.kill_at = kill_at
        self.count = 0
        self.labels = []

    def point(self, label):
        self.count += 1
        if self.kill_at is None:
            self.labels.append(label)
        elif self.count == self.kill_at:
            os._exit(77)

    def install(self):
        import builtins
        import elfi.store as store
        inj = self

        def proxy_open(*a, **k):
            return _Proxy(builtins.open(*a, **k), inj)
        store.open = proxy_open
        orig = store.NpyArray.__setitem__

        def setitem(self_, sl, value):
            inj.point('memmap-assign:before')
            orig(self_, sl, value)
            inj.point('memmap-assign:after')
        store.NpyArray.__setitem__ = setitem


def run_in_child(fn, kill_at, timeout=60):
    """Fork; in the child install an Injector(kill_at) and call fn(report) where report(tag) records progress.

    Returns (exit_status, reports, npoints) - npoints only meaningful when kill_at is None.
    """
    r, w = os.pipe()
    pid = os.fork()
    if pid == 0:
        try:
            os.close(r)
            inj = Injector(kill_at)
            inj.install()

            def report(tag):
                os.write(w, (tag + '\n').encode())
            fn(report)
            if kill_at is None:
                os.write(w, ('NPOINTS %d\n' % inj.count).encode())
                os.write(w, ('LABELS %s\n' % ','.join(inj.labels)).encode())
            os._exit(0)
        except BaseException as e:      # noqa
            try:
                os.write(w, ('EXC %s: %s\n' % (type(e).__name__, str(e)[:300].replace('\n', ' '))).encode())
            finally:
                os._exit(99)
    os.close(w)
    chunks = []
    while True:
        b = os.read(r, 65536)
        if not b:
            break
        chunks.append(b)
    os.close(r)
    _, status = os.waitpid(pid, 0)
    code = os.WEXITSTATUS(status) if os.WIFEXITED(status) else -os.WTERMSIG(status)
    lines = b''.join(chunks).decode(errors='replace').splitlines()
    npoints = None
    reports = []
    labels = []
    for ln in lines:
        if ln.startswith('NPOINTS '):
            npoints = int(ln.split()[1])
        elif ln.startswith('LABELS '):
            labels = ln[7:].split(',')
        else:
            reports.append(ln)
    return code, reports, npoints, labels
