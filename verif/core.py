"""Core data types shared by the runner and the checks.

A *case* is a JSON-serialisable value produced by a Hypothesis strategy (or by an enumerator).
A check is a pure function ``run_case(case)`` that builds the elfi objects from the case, runs
them, runs the oracle and returns a :class:`CaseResult` or raises :class:`Violation`.
"""

import hashlib
import json
import os
import traceback


class Violation(Exception):
    """The property is violated by the code under test for this case.

    signature : short stable string naming the oracle that failed and the structural reason.
    message   : human readable explanation (goes to the replay file and the log).
    detail    : optional JSON-serialisable extra information.
    """

    def __init__(self, signature, message, detail=None):
        super().__init__('%s: %s' % (signature, message))
        self.signature = signature
        self.message = message
        self.detail = detail


class CaseResult(object):
    """What a passing case reports: class labels and the key under which it is non-trivial."""

    __slots__ = ('labels', 'nontrivial', 'known')

    def __init__(self, labels=(), nontrivial=None, known=()):
        self.labels = list(labels)
        # None => trivial; True => non-trivial, keyed by the whole case; anything else => key
        self.nontrivial = nontrivial
        # list of (signature, message) of violations matched against open known findings
        self.known = list(known)


class Part(object):
    """One generated sub-check of a property."""

    def __init__(self, name, run_case, strategy=None, enumerate_cases=None,
                 examples=None, shards=None, shrink=True, doc='', max_shrink_s=120, fuzz=None, fuzz_shards=None):
        self.name = name
        self.run_case = run_case
        self.strategy = strategy              # callable(tier) -> hypothesis strategy
        self.enumerate_cases = enumerate_cases  # callable(tier, shard, nshards) -> iterator of cases
        self.examples = examples or {'quick': 100, 'thorough': 1000}   # total over all shards
        self.shards = shards or {'quick': 4, 'thorough': 16}
        self.shrink = shrink
        self.doc = doc
        self.max_shrink_s = max_shrink_s
        # coverage-guided engine (atheris), thorough tier: total runs over all fuzz shards.  Default: an eighth of
        # the thorough example count.  fuzz=False switches it off (parts that start real worker processes).
        if fuzz is False or strategy is None:
            self.fuzz = {'quick': 0, 'thorough': 0}
        elif fuzz is None:
            self.fuzz = {'quick': 0, 'thorough': max(64, self.examples['thorough'] // 8)}
        else:
            self.fuzz = dict({'quick': 0, 'thorough': 0}, **fuzz)
        self.fuzz_shards = fuzz_shards or {'quick': 0, 'thorough': 4}


def canonical(case):
    return json.dumps(case, sort_keys=True, separators=(',', ':'), default=_json_default)


def _json_default(o):
    try:
        import numpy as np
        if isinstance(o, np.generic):
            return o.item()
        if isinstance(o, np.ndarray):
            return o.tolist()
    except Exception:
        pass
    if isinstance(o, (set, frozenset)):
        return sorted(o)
    if isinstance(o, tuple):
        return list(o)
    return repr(o)


def key_hash(obj):
    return hashlib.blake2b(canonical(obj).encode(), digest_size=8).hexdigest()


def elfi_frame(exc):
    """Innermost frame of the traceback that lies in the elfi package: 'file.py:func'."""
    tb = traceback.extract_tb(exc.__traceback__)
    inner = None
    for fr in tb:
        fn = fr.filename.replace('\\', '/')
        if '/elfi/' in fn and '/verif/' not in fn:
            inner = '%s:%s' % (os.path.basename(fn), fr.name)
    return inner


class must_not_raise(object):
    """Context manager: an exception raised by elfi inside the block is a Violation.

    Used where the property says a call finishes / returns something for every input in the
    generated domain.  ``allowed`` exception types pass through untouched (used when the
    contract is 'raises on invalid input').
    """

    def __init__(self, prop, what, allowed=()):
        self.prop = prop
        self.what = what
        self.allowed = allowed

    def __enter__(self):
        return self

    def __exit__(self, et, ev, tb):
        if et is None:
            return False
        if issubclass(et, Violation) or issubclass(et, (KeyboardInterrupt, SystemExit, MemoryError)):
            return False
        if self.allowed and issubclass(et, self.allowed):
            return False
        frame = elfi_frame(ev)
        if frame is None:
            # not raised from inside elfi: a harness problem, let it propagate
            return False
        sig = '%s:raises:%s@%s' % (self.prop, et.__name__, frame)
        msg = '%s raised %s: %s' % (self.what, et.__name__, str(ev)[:300])
        raise Violation(sig, msg) from ev


_OPEN_CACHE = {}


def open_signatures(prop):
    """Signatures of the open known findings of a property (read once per process)."""
    if prop not in _OPEN_CACHE:
        from . import findings
        _OPEN_CACHE[prop] = set(f.signature for f in findings.open_for(prop))
    return _OPEN_CACHE[prop]


def soft(prop, known_list, signature, message, detail=None):
    """Report a violation; if it matches an open known finding, record it and keep going."""
    if signature in open_signatures(prop):
        known_list.append((signature, message))
        return
    raise Violation(signature, message, detail)


class _HangSignal(BaseException):
    pass


class time_limit(object):
    """Turn a hang of the code under test into a Violation.

    Only used around calls whose normal cost is micro/milliseconds to seconds and with a limit far above that cost, so that a
    correct implementation cannot hit it; a hit means the call does not terminate (e.g. an unservable request loops forever
    instead of being rejected).

    The limit counts CPU seconds of THIS process (ITIMER_VIRTUAL), not wall-clock seconds: on a machine that other work keeps
    busy a correct 40 s case once needed more than 120 s of wall time and was reported as a hang (a false alarm of the
    thorough tier, DESIGN.md section 10).  A wall-clock timer at 20x the limit remains as a backstop for a hang that sleeps.
    ``cpu=False`` keeps the plain wall-clock limit (used where the work is done by worker processes).
    """

    def __init__(self, seconds, signature, what, cpu=True):
        self.seconds = seconds
        self.signature = signature
        self.what = what
        self.cpu = cpu

    def _handler(self, signum, frame):
        # a BaseException so that `except Exception` blocks inside the code under test do not swallow or re-wrap it
        raise _HangSignal()

    def __enter__(self):
        import signal
        self._old = signal.signal(signal.SIGALRM, self._handler)
        if self.cpu:
            self._oldv = signal.signal(signal.SIGVTALRM, self._handler)
            signal.setitimer(signal.ITIMER_VIRTUAL, self.seconds)
            signal.setitimer(signal.ITIMER_REAL, 20 * self.seconds)
        else:
            signal.setitimer(signal.ITIMER_REAL, self.seconds)
        return self

    def __exit__(self, et, ev, tb):
        import signal
        signal.setitimer(signal.ITIMER_REAL, 0)
        if self.cpu:
            signal.setitimer(signal.ITIMER_VIRTUAL, 0)
            signal.signal(signal.SIGVTALRM, self._oldv if self._oldv is not None else signal.SIG_DFL)
        # a handler installed from C (libFuzzer/atheris) is reported as None and cannot be put back from Python
        signal.signal(signal.SIGALRM, self._old if self._old is not None else signal.SIG_DFL)
        if et is not None and issubclass(et, _HangSignal):
            raise Violation(self.signature, '%s did not return within %s %s seconds' % (self.what, self.seconds, 'CPU' if self.cpu else 'wall-clock'))
        return False
