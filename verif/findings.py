"""Parser for /verif/KNOWN_FINDINGS.txt (committed; never written at run time).

Line formats (one entry per line, '#' starts a comment):

  open: property=C05 signature=C05:rng-shift replay=replays/regress/C05-x.json :: what fails
  fixed: property=C01 <commit> replay=replays/regress/C01-y.json :: what failed

An *open* entry makes the runner count (instead of report) violations whose signature equals the
entry's signature, and print one ``KNOWN-FINDING:`` line while the committed reproducer still
fails that way.  A *fixed* entry suppresses nothing; its reproducer belongs to the regress tier.
"""

import os
import re

HERE = os.path.dirname(os.path.dirname(os.path.abspath(__file__)))
PATH = os.path.join(HERE, 'KNOWN_FINDINGS.txt')


class Finding(object):
    def __init__(self, state, prop, signature, replay, commit, what):
        self.state = state
        self.prop = prop
        self.signature = signature
        self.replay = replay
        self.commit = commit
        self.what = what


def load(path=PATH):
    out = []
    if not os.path.exists(path):
        return out
    for line in open(path):
        line = line.strip()
        if not line or line.startswith('#'):
            continue
        m = re.match(r'^(open|fixed):\s*(.*)$', line)
        if not m:
            continue
        state, rest = m.group(1), m.group(2)
        head, _, what = rest.partition('::')
        prop = re.search(r'property=(\S+)', head)
        sig = re.search(r'signature=(\S+)', head)
        rep = re.search(r'replay=(\S+)', head)
        com = re.search(r'commit=(\S+)', head)
        out.append(Finding(state, prop.group(1) if prop else None, sig.group(1) if sig else None,
                           rep.group(1) if rep else None, com.group(1) if com else None,
                           what.strip()))
    return out


def open_for(prop, path=PATH):
    return [f for f in load(path) if f.state == 'open' and f.prop == prop]
