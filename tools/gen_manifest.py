#!/venv/bin/python
"""Regenerate MANIFEST.json from the check modules that exist (and validate it against the schema)."""
import importlib
import json
import os
import sys

HERE = os.path.dirname(os.path.dirname(os.path.abspath(__file__)))
sys.path.insert(0, HERE)
sys.path.insert(0, '/repo')

NOT_APPLICABLE = {
    # property id -> reason, for properties without a registered check
}

SETUP = ("/venv/bin/python -c 'import hypothesis' 2>/dev/null || "
         "/venv/bin/pip install -q --no-index --find-links /opt/veriftools/wheels --target /verif/.deps hypothesis; "
         "PYTHONPATH=/verif/.deps /venv/bin/python -c 'import atheris' 2>/dev/null || "
         "/venv/bin/pip install -q --no-index --find-links /opt/veriftools/wheels --target /verif/.deps atheris || true; "
         "mkdir -p /verif/evidence /verif/replays/found /verif/.tmp; "
         "PYTHONPATH=/verif/.deps /venv/bin/python -c 'import hypothesis, numpy, scipy; print(\"setup ok\", hypothesis.__version__)'")


def main():
    props = [json.loads(l) for l in open(os.path.join(HERE, 'properties.jsonl'))]
    checks = []
    na = []
    for p in props:
        pid = p['id']
        modfile = os.path.join(HERE, 'verif', 'checks', pid.lower() + '.py')
        if not os.path.exists(modfile):
            na.append({'property_id': pid, 'reason': NOT_APPLICABLE.get(pid, 'no check registered yet: the generated check for this property is still being built (not a claim that the technique cannot apply)')})
            continue
        c = importlib.import_module('verif.checks.' + pid.lower()).CHECK
        checks.append({
            'property_id': pid,
            'quick_cmd': '/venv/bin/python run_check.py %s --tier quick' % pid,
            'thorough_cmd': '/venv/bin/python run_check.py %s --tier thorough' % pid,
            'evidence_file': '/verif/evidence/%s.json' % pid,
            'replay_cmd_template': '/venv/bin/python run_check.py %s --replay {path}' % pid,
            'engine': 'hypothesis-runner',
            'level_claimed': {'category': c.level, 'text': c.level_text, 'design_ref': c.design_ref},
            'level_note': c.level_note,
            'technique': c.technique,
        })
    man = {
        'version': 1,
        'setup_cmd': SETUP,
        'hooks': {'guard': 'ELFI_VERIF_HOOKS',
                  'enable': 'no source hooks are needed: every observation point is public API or a test-owned operation/client; the runner sets ELFI_VERIF_HOOKS=1 but nothing in elfi reads it',
                  'baseline_off_cmd': 'cd /repo && /venv/bin/python -m pytest -ra -q -p no:cacheprovider --timeout=900 --continue-on-collection-errors',
                  'source_commits': [], 'add_only': True},
        'engines': [{'name': 'hypothesis-runner', 'path': 'run_check.py',
                     'serves_properties': [c['property_id'] for c in checks],
                     'kind_free_text': 'Hypothesis 6.168 strategies producing JSON cases, executed by pure run_case functions against explicit oracles; sharded over processes; exhaustive enumeration for small finite sub-domains; fork/kill fault injection for the store; in the thorough tier additionally atheris (libFuzzer) shards that drive the same strategies and oracles through fuzz_one_input with coverage feedback from elfi'}],
        'checks': checks,
        'not_applicable': na,
        'notes': 'See DESIGN.md. KNOWN_FINDINGS.txt lists open findings and fixed defects; replays/regress holds their reproducers.',
    }
    path = os.path.join(HERE, 'MANIFEST.json')
    with open(path, 'w') as f:
        json.dump(man, f, indent=1)
        f.write('\n')
    try:
        import jsonschema
        jsonschema.validate(man, json.load(open('/root/.vp/MANIFEST.schema.json')))
        print('MANIFEST.json valid; %d checks, %d not_applicable' % (len(checks), len(na)))
    except ImportError:
        print('jsonschema not importable here; wrote MANIFEST.json with %d checks' % len(checks))


if __name__ == '__main__':
    main()
