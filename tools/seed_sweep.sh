#!/bin/bash
# Silence protocol: run every check on the unchanged tree for several VERIF_SEED values; print only non-silent results.
tier=${TIER:-quick}
cd "$(dirname "$0")/.."
for seed in "$@"; do
  for i in 01 02 03 04 05 06 07 08 09 10 11 12 13 14 15 16 17 18 19 20; do
    out=$(VERIF_SEED=$seed VERIF_EVIDENCE_SUFFIX=.sweep /venv/bin/python run_check.py C$i --tier $tier 2>&1); rc=$?
    line=$(echo "$out" | grep -E "^C$i tier" | cut -c1-140)
    if [ $rc -ne 0 ]; then echo "seed=$seed C$i exit=$rc"; echo "$out" | grep -E "VIOLATION|signature|HARNESS" | head -5 | cut -c1-300; else echo "seed=$seed ok $line"; fi
  done
done
