#!/venv/bin/python
"""Sensitivity protocol: apply planted mutants (or a patch file) to a scratch copy of /repo and run a check on it.

  tools/mutate.py planted [--prop C15] [--id NAME] [--tier quick] [--scale 1.0]
        for each mutant in mutants/planted.json: copy /repo to a scratch dir under $TMPDIR, replace `old` by `new`
        in `file`, run `run_check.py <prop>` with VERIF_REPO pointing at the copy, report caught/missed.
  tools/mutate.py patch <patch.diff> <prop> [--tier quick]
        same with a unified diff (used for the seeded changes under seeded/<id>/patch.diff).

/repo itself is never modified.  Scratch copies are removed afterwards.
"""
import argparse
import json
import os
import shutil
import subprocess
import sys
import tempfile
import time

HERE = os.path.dirname(os.path.dirname(os.path.abspath(__file__)))
REPO = os.environ.get('VERIF_REPO_SRC', '/repo')


def scratch_copy():
    d = tempfile.mkdtemp(prefix='elfi-mut-')
    shutil.copytree(os.path.join(REPO, 'elfi'), os.path.join(d, 'elfi'),
                    ignore=shutil.ignore_patterns('__pycache__', '*.pyc'))
    return d


def run_check(prop, repo, tier, scale, seed, parts=None):
    env = dict(os.environ)
    env['VERIF_REPO'] = repo
    env['VERIF_SEED'] = str(seed)
    env['VERIF_SCALE'] = str(scale)
    cmd = [os.path.join(HERE, 'run_check.py'), prop, '--tier', tier]
    if parts:
        cmd += ['--parts', parts]
    else:
        # never overwrite the real evidence with a mutant run
        env['VERIF_EVIDENCE_SUFFIX'] = '.mutant'
    t0 = time.time()
    p = subprocess.run(cmd, env=env, stdout=subprocess.PIPE, stderr=subprocess.STDOUT)
    return p.returncode, p.stdout.decode(errors='replace'), time.time() - t0


def main():
    ap = argparse.ArgumentParser()
    sub = ap.add_subparsers(dest='mode')
    a1 = sub.add_parser('planted')
    a1.add_argument('--prop')
    a1.add_argument('--id')
    a1.add_argument('--tier', default='quick')
    a1.add_argument('--scale', default='1.0')
    a1.add_argument('--seed', default='1')
    a1.add_argument('-v', action='store_true')
    a2 = sub.add_parser('patch')
    a2.add_argument('patch')
    a2.add_argument('prop')
    a2.add_argument('--tier', default='quick')
    a2.add_argument('--scale', default='1.0')
    a2.add_argument('--seed', default='1')
    a2.add_argument('--parts', default=None)
    a = ap.parse_args()
    if a.mode == 'planted':
        muts = json.load(open(os.path.join(HERE, 'mutants', 'planted.json')))
        rows = []
        for m in muts:
            if a.prop and m['property'] != a.prop:
                continue
            if a.id and m['id'] != a.id:
                continue
            d = scratch_copy()
            try:
                fn = os.path.join(d, m['file'])
                s = open(fn).read()
                if s.count(m['old']) != 1:
                    print('%-40s  NOT APPLICABLE (old text occurs %d times)' % (m['id'], s.count(m['old'])))
                    continue
                open(fn, 'w').write(s.replace(m['old'], m['new']))
                rc, out, dt = run_check(m['property'], d, a.tier, a.scale, a.seed)
                sigs = [ln.strip() for ln in out.splitlines() if ln.strip().startswith('signature=')]
                verdict = {0: 'MISSED', 1: 'caught', 2: 'HARNESS-ERROR'}.get(rc, 'rc=%d' % rc)
                print('%-40s %-8s %5.0fs  %s' % (m['id'], verdict, dt, ' '.join(sigs)[:150]))
                if a.v or rc == 2:
                    print(out[-3000:])
                rows.append((m['id'], verdict))
            finally:
                shutil.rmtree(d, ignore_errors=True)
        return 0 if all(v == 'caught' for _, v in rows) else 1
    elif a.mode == 'patch':
        d = scratch_copy()
        try:
            p = subprocess.run(['patch', '-p1', '-d', d, '-i', os.path.abspath(a.patch)], stdout=subprocess.PIPE, stderr=subprocess.STDOUT)
            if p.returncode != 0:
                print('patch failed:\n' + p.stdout.decode())
                return 2
            rc, out, dt = run_check(a.prop, d, a.tier, a.scale, a.seed, a.parts)
            print(out[-4000:])
            print('rc=%d wall=%.0fs' % (rc, dt))
            return rc
        finally:
            shutil.rmtree(d, ignore_errors=True)
    ap.print_help()
    return 2


if __name__ == '__main__':
    sys.exit(main())
