#!/bin/bash
# Re-run the (final) quick checks against every kept seeded change: tools/seeded_sweep.sh [ids...] > mutants/seeded-sweep-quick-seed1.txt
# Each change is applied to a scratch copy (tools/mutate.py patch); /repo is not touched.
cd "$(dirname "$0")/.."
ROOT="$(pwd)"
ids="$@"
[ -z "$ids" ] && ids=$(ls seeded)
for id in $ids; do
  prop=$(/venv/bin/python -c "import json;print(json.load(open('seeded/$id/meta.json'))['property'])")
  pf="$ROOT/seeded/$id/patch.diff"
  # a change whose lines were later touched by a repair in /repo is kept in its original form and, next to it, rebased
  rb=$(ls "$ROOT/seeded/$id"/patch.rebased-*.diff 2>/dev/null | tail -1)
  [ -n "$rb" ] && pf="$rb"
  out=$(tools/mutate.py patch "$pf" "$prop" 2>&1)
  rc=$(echo "$out" | grep -o "^rc=[0-9]*" | tail -1)
  sigs=$(echo "$out" | grep -o "signature=[^ ]*" | sort -u | head -3 | tr '\n' ' ')
  wall=$(echo "$out" | grep -o "wall=[0-9]*s" | tail -1)
  case "$rc" in
    rc=1) v=caught;;
    rc=0) v=MISSED;;
    *) v="HARNESS-ERROR($rc)";;
  esac
  echo "$id $prop $v $wall $sigs"
done
