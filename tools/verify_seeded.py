#!/venv/bin/python
"""Verify a seeded change delivered by a sub-agent and run our check against it.

  tools/verify_seeded.py <dir-with-patchK.diff,demoK.py> <K> <prop> [--tests] [--tier quick] [--keep-as NAME]

Steps (all in a scratch git worktree of /repo under $TMPDIR, removed afterwards):
  1. demo on the clean tree must exit 0;  2. patch applies;  3. demo on the patched tree must exit != 0;
  4. (--tests) the stable baseline tests must still pass with the patch;
  5. our check (run_check.py <prop>) is run with VERIF_REPO pointing at the patched tree.
With --keep-as the change is stored as /verif/seeded/<NAME>/ (patch.diff, demo.py, notes.md, meta.json).
"""
import argparse, json, os, shutil, subprocess, sys, tempfile, time

HERE = os.path.dirname(os.path.dirname(os.path.abspath(__file__)))


def sh(cmd, cwd=None, env=None, timeout=3600):
    p = subprocess.run(cmd, cwd=cwd, env=env, stdout=subprocess.PIPE, stderr=subprocess.STDOUT, timeout=timeout)
    return p.returncode, p.stdout.decode(errors='replace')


def main():
    ap = argparse.ArgumentParser()
    ap.add_argument('dir'); ap.add_argument('k'); ap.add_argument('prop')
    ap.add_argument('--tests', action='store_true')
    ap.add_argument('--tier', default='quick')
    ap.add_argument('--seed', default='1')
    ap.add_argument('--keep-as')
    ap.add_argument('--no-check', action='store_true')
    a = ap.parse_args()
    patch = os.path.join(a.dir, 'patch%s.diff' % a.k)
    demo = os.path.join(a.dir, 'demo%s.py' % a.k)
    notes = os.path.join(a.dir, 'notes%s.md' % a.k)
    wt = tempfile.mkdtemp(prefix='elfi-seed-')
    os.rmdir(wt)
    rc, out = sh(['git', '-C', '/repo', 'worktree', 'add', '--detach', wt, 'HEAD'])
    assert rc == 0, out
    meta = {'property': a.prop, 'source': 'sub-agent given only the property text and a scratch worktree',
            'repo_head': sh(['git', '-C', '/repo', 'rev-parse', 'HEAD'])[1].strip()}
    try:
        env = dict(os.environ, PYTHONPATH=wt, OMP_NUM_THREADS='1', OPENBLAS_NUM_THREADS='1')
        t0 = time.time()
        rc0, out0 = sh(['/venv/bin/python', os.path.abspath(demo)], cwd=wt, env=env)
        print('demo on clean tree: rc=%d (%.0fs)' % (rc0, time.time() - t0))
        if rc0 != 0:
            print(out0[-1500:])
        rc, out = sh(['git', '-C', wt, 'apply', os.path.abspath(patch)])
        print('patch applies: %s' % (rc == 0))
        if rc != 0:
            print(out)
            return 2
        rc1, out1 = sh(['/venv/bin/python', os.path.abspath(demo)], cwd=wt, env=env)
        print('demo on patched tree: rc=%d' % rc1)
        print('   ' + '\n   '.join(out1.strip().splitlines()[-6:]))
        meta['demo_clean_rc'] = rc0
        meta['demo_patched_rc'] = rc1
        meta['demo_patched_tail'] = out1.strip().splitlines()[-6:]
        if a.tests:
            t0 = time.time()
            tests = [l.strip() for l in open('/tmp/seed-out/stable_tests.txt') if l.strip()] if os.path.exists('/tmp/seed-out/stable_tests.txt') else []
            xml = os.path.join(wt, 'junit.xml')
            rc, out = sh(['/venv/bin/python', '-m', 'pytest', '-q', '-p', 'no:cacheprovider', '--timeout=900', '-n', os.environ.get('VERIF_PYTEST_N', '16'),
                          '--junitxml=' + xml] + tests, cwd=wt, env=env)
            last = out.strip().splitlines()[-1] if out.strip() else ''
            print('stable tests with patch: rc=%d  %s (%.0fs)' % (rc, last, time.time() - t0))
            if rc != 0:
                failed = [l.split()[1] for l in out.splitlines() if l.startswith('FAILED') or l.startswith('ERROR')]
                print('  failed under -n 16: %s ; re-running those sequentially' % failed)
                rc, out2 = sh(['/venv/bin/python', '-m', 'pytest', '-q', '-p', 'no:cacheprovider', '--timeout=900'] + failed, cwd=wt, env=env)
                last2 = out2.strip().splitlines()[-1] if out2.strip() else ''
                print('  sequential re-run: rc=%d %s' % (rc, last2))
                last = last + ' ; sequential re-run of the %d failures: %s' % (len(failed), last2)
                if rc != 0:
                    print('\n'.join(l for l in out2.splitlines() if l.startswith('FAILED') or l.startswith('ERROR'))[:2000])
            meta['stable_tests'] = last
            meta['stable_tests_rc'] = rc
        if not a.no_check:
            env2 = dict(os.environ, VERIF_REPO=wt, VERIF_SEED=a.seed, VERIF_EVIDENCE_SUFFIX='.mutant')
            t0 = time.time()
            rc, out = sh([os.path.join(HERE, 'run_check.py'), a.prop, '--tier', a.tier], env=env2)
            sigs = sorted(set(l.strip() for l in out.splitlines() if l.strip().startswith('signature=')))
            verdict = {0: 'MISSED', 1: 'caught', 2: 'HARNESS-ERROR'}.get(rc, 'rc=%d' % rc)
            print('our check %s (%s, seed %s): %s in %.0fs  %s' % (a.prop, a.tier, a.seed, verdict, time.time() - t0, ' '.join(sigs)))
            if rc == 2:
                print(out[-3000:])
            meta['check'] = {'tier': a.tier, 'seed': a.seed, 'verdict': verdict, 'signatures': sigs}
        if a.keep_as:
            d = os.path.join(HERE, 'seeded', a.keep_as)
            os.makedirs(d, exist_ok=True)
            shutil.copy(patch, os.path.join(d, 'patch.diff'))
            shutil.copy(demo, os.path.join(d, 'demo.py'))
            if os.path.exists(notes):
                shutil.copy(notes, os.path.join(d, 'notes.md'))
            old = {}
            mp = os.path.join(d, 'meta.json')
            if os.path.exists(mp):
                old = json.load(open(mp))
            old.update(meta)
            json.dump(old, open(mp, 'w'), indent=1, sort_keys=True)
            print('kept as seeded/%s' % a.keep_as)
    finally:
        sh(['git', '-C', '/repo', 'worktree', 'remove', '--force', wt])
        shutil.rmtree(wt, ignore_errors=True)
    return 0


if __name__ == '__main__':
    sys.exit(main())
