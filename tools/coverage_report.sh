#!/bin/bash
# Which elfi lines/branches do the generated cases of the quick tier reach?  Measurement aid, not a check.
#   tools/coverage_report.sh [Cxx ...]      -> .tmp/cov/report-<Cxx>.txt (missing lines per file)
cd "$(dirname "$0")/.."
props=${@:-C01 C02 C03 C04 C05 C06 C07 C08 C09 C10 C11 C12 C13 C14 C15 C16 C17 C18 C19 C20}
for c in $props; do
  d=.tmp/cov/$c; rm -rf $d; mkdir -p $d
  VERIF_COVERAGE_DIR=$PWD/$d VERIF_EVIDENCE_SUFFIX=.cov VERIF_SEED=${VERIF_SEED:-1} /venv/bin/python run_check.py $c --tier quick > $d/run.log 2>&1
  (cd $d && /venv/bin/python -m coverage combine -q --data-file=.coverage .coverage.* >/dev/null 2>&1; /venv/bin/python -m coverage report --data-file=.coverage -m --skip-empty 2>/dev/null) > .tmp/cov/report-$c.txt
  echo "$c: $(tail -1 .tmp/cov/report-$c.txt)"
done
