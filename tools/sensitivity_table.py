#!/venv/bin/python
"""Build the sensitivity section (markdown) from a planted-mutant sweep log and the seeded metas.

  tools/sensitivity_table.py <mutants_run.txt>  > section.md
"""
import glob
import json
import os
import re
import sys

HERE = os.path.dirname(os.path.dirname(os.path.abspath(__file__)))
muts = {m['id']: m for m in json.load(open(os.path.join(HERE, 'mutants', 'planted.json')))}
res = {}
for line in open(sys.argv[1]):
    m = re.match(r'^(\S+)\s+(caught|MISSED|HARNESS-ERROR|NOT APPLICABLE)\s*(\d+)?s?\s*(.*)$', line.rstrip())
    if m and m.group(1) in muts:
        sigs = sorted(set(re.findall(r'signature=(\S+)', m.group(4))))
        res[m.group(1)] = (m.group(2), m.group(3), sigs)
print('### 11.1 Planted mutants (quick tier, VERIF_SEED=1, scratch copy of /repo via VERIF_REPO)\n')
print('| mutant | what it changes | result | signatures |')
print('|--------|-----------------|--------|------------|')
ncaught = nmiss = 0
for mid, m in muts.items():
    r = res.get(mid, ('not run', '', []))
    verdict = r[0]
    if verdict == 'caught':
        ncaught += 1
    elif verdict == 'MISSED':
        nmiss += 1
        if m.get('expected') == 'missed':
            verdict = 'missed (expected, see text)'
    desc = m['description'].split(' -- ')[0]
    print('| %s | %s | %s%s | %s |' % (mid, desc.replace('|', '/'), verdict, (' %ss' % r[1]) if r[1] else '', ', '.join(s.split(':', 1)[1] if ':' in s else s for s in r[2][:3])))
print('\n%d planted mutants: %d caught, %d missed.\n' % (len(muts), ncaught, nmiss))
final = {}
if len(sys.argv) > 2:
    for line in open(sys.argv[2]):
        f = line.split()
        if len(f) >= 3:
            final[f[0]] = (f[2], [x.split('=', 1)[1] for x in f[3:] if x.startswith('signature=')])
print('### 11.2 Independently seeded changes (sub-agents given only the property text and a scratch worktree)\n')
print('"on arrival" is the verdict of the check as it stood when the change was delivered (a non-empty note = it was missed and the '
      'check was extended; C08-f is marked there too although the extension made for C07-f had landed minutes earlier); '
      '"final" is the verdict of the final quick check (seed 1) from `tools/seeded_sweep.sh`.\n')
print('| id | file(s) touched | what it needs to manifest | demo clean/patched | stable tests | on arrival | final check | extension made after a miss |')
print('|----|-----------------|---------------------------|------|------|------|------|------|')
n = nmiss0 = nfinal_c = nfinal_m = 0
for d in sorted(glob.glob(os.path.join(HERE, 'seeded', '*'))):
    sid = os.path.basename(d)
    meta = json.load(open(os.path.join(d, 'meta.json')))
    patch = open(os.path.join(d, 'patch.diff')).read()
    files = sorted(set(re.findall(r'^\+\+\+ b/(\S+)', patch, re.M)))
    chk = meta.get('check', {})
    note = meta.get('strengthening') or meta.get('verdict') or ''
    missed0 = bool(meta.get('strengthening')) or chk.get('verdict') == 'MISSED'
    n += 1
    nmiss0 += int(missed0 and sid != 'C16-a')
    fv, fs = final.get(sid, ('not run', []))
    nfinal_c += int(fv == 'caught')
    nfinal_m += int(fv == 'MISSED')
    needs = meta.get('needs', '')
    st_ = 'pass' if meta.get('stable_tests_rc') == 0 else ('pass (1 flaky test re-run)' if 'passed' in str(meta.get('stable_tests', '')) else str(meta.get('stable_tests', '?'))[:40])
    print('| %s | %s | %s | %s/%s | %s | %s | %s %s | %s |' % (
        sid, ', '.join(f.replace('elfi/', '') for f in files), needs.replace('|', '/'),
        meta.get('demo_clean_rc'), meta.get('demo_patched_rc'), st_,
        'missed' if missed0 else 'caught', fv, ', '.join(x.split(':', 1)[1] if ':' in x else x for x in fs[:2]), note.replace('|', '/')[:300]))
print('\n%d seeded changes kept: %d missed on arrival (each followed by an extension of the generator), final checks: %d caught, %d missed '
      '(C16-a: not a violation of the property as stated, the check must be silent).\n' % (n, nmiss0, nfinal_c, nfinal_m))
