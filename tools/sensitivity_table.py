#!/venv/bin/python
"""Build the sensitivity section (markdown) from a planted-mutant sweep log and the seeded metas.

  tools/sensitivity_table.py <mutants_run.txt>  > section.md
"""
import glob
import json
import os
import re
import sys

HERE = os.path.dirname(os.path.dirname(os.path.abspath(__file__)))
muts = {m['id']: m for m in json.load(open(os.path.join(HERE, 'mutants', 'planted.json')))}
res = {}
for line in open(sys.argv[1]):
    m = re.match(r'^(\S+)\s+(caught|MISSED|HARNESS-ERROR|NOT APPLICABLE)\s*(\d+)?s?\s*(.*)$', line.rstrip())
    if m and m.group(1) in muts:
        sigs = sorted(set(re.findall(r'signature=(\S+)', m.group(4))))
        res[m.group(1)] = (m.group(2), m.group(3), sigs)
print('### 11.1 Planted mutants (quick tier, VERIF_SEED=1, scratch copy of /repo via VERIF_REPO)\n')
print('| mutant | what it changes | result | signatures |')
print('|--------|-----------------|--------|------------|')
ncaught = nmiss = 0
for mid, m in muts.items():
    r = res.get(mid, ('not run', '', []))
    verdict = r[0]
    if verdict == 'caught':
        ncaught += 1
    elif verdict == 'MISSED':
        nmiss += 1
        if m.get('expected') == 'missed':
            verdict = 'missed (expected, see text)'
    desc = m['description'].split(' -- ')[0]
    print('| %s | %s | %s%s | %s |' % (mid, desc.replace('|', '/'), verdict, (' %ss' % r[1]) if r[1] else '', ', '.join(s.split(':', 1)[1] if ':' in s else s for s in r[2][:3])))
print('\n%d planted mutants: %d caught, %d missed.\n' % (len(muts), ncaught, nmiss))
print('### 11.2 Independently seeded changes (sub-agents given only the property text and a scratch worktree)\n')
print('| id | property | file(s) touched | what it needs to manifest (from the agent\'s notes) | demo clean/patched | stable tests | our check | note |')
print('|----|----------|-----------------|--------------------------------|------|------|------|------|')
for d in sorted(glob.glob(os.path.join(HERE, 'seeded', '*'))):
    sid = os.path.basename(d)
    meta = json.load(open(os.path.join(d, 'meta.json')))
    patch = open(os.path.join(d, 'patch.diff')).read()
    files = sorted(set(re.findall(r'^\+\+\+ b/(\S+)', patch, re.M)))
    chk = meta.get('check', {})
    note = meta.get('verdict') or meta.get('strengthening') or ''
    needs = meta.get('needs', '')
    print('| %s | %s | %s | %s | %s/%s | %s | %s %s | %s |' % (
        sid, meta.get('property'), ', '.join(f.replace('elfi/', '') for f in files), needs.replace('|', '/'),
        meta.get('demo_clean_rc'), meta.get('demo_patched_rc'), 'pass' if meta.get('stable_tests_rc') == 0 else str(meta.get('stable_tests', '?'))[:40],
        chk.get('verdict', '?'), ', '.join(s.split('=', 1)[1].split(':', 1)[1] for s in chk.get('signatures', [])[:2]), note.replace('|', '/')[:260]))
