#!/bin/bash
# Run every registered check (default: quick tier, VERIF_SEED=1) and print one summary line per check.
tier=${1:-quick}
export VERIF_SEED=${VERIF_SEED:-1}
cd "$(dirname "$0")/.."
rc_all=0
for i in 01 02 03 04 05 06 07 08 09 10 11 12 13 14 15 16 17 18 19 20; do
  out=$(/venv/bin/python run_check.py C$i --tier $tier 2>&1); rc=$?
  echo "$out" | grep -E "^(VIOLATION|KNOWN-FINDING|C$i tier)" | cut -c1-220
  [ $rc -ne 0 ] && { echo "  -> C$i exit $rc"; rc_all=1; }
done
exit $rc_all
