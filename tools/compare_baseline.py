#!/venv/bin/python
"""Compare a junit xml with BASELINE.json stable_pass: every stable test must pass."""
import json, sys
import xml.etree.ElementTree as ET
b = json.load(open('/root/.vp/BASELINE.json'))
stable = set(b['stable_pass'])
root = ET.parse(sys.argv[1]).getroot()
res = {}
for tc in root.iter('testcase'):
    name = '%s::%s' % (tc.get('classname'), tc.get('name'))
    bad = any(ch.tag in ('failure', 'error', 'skipped') for ch in tc)
    res[name] = not bad
missing = [s for s in stable if s not in res]
failed = [s for s in stable if s in res and not res[s]]
print('stable=%d passed=%d failed=%d missing=%d ; total passing now=%d' % (len(stable), sum(1 for s in stable if res.get(s)), len(failed), len(missing), sum(res.values())))
for s in failed: print('FAILED', s)
for s in missing: print('MISSING', s)
sys.exit(1 if failed or missing else 0)
