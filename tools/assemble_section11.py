#!/venv/bin/python
"""Rebuild section 11 of DESIGN.md from tools/section11_intro.md, the planted sweep and the seeded sweep.

  tools/assemble_section11.py [planted_sweep.txt [seeded_sweep.txt]]
"""
import glob
import json
import os
import subprocess
import sys

HERE = os.path.dirname(os.path.dirname(os.path.abspath(__file__)))
planted = sys.argv[1] if len(sys.argv) > 1 else os.path.join(HERE, 'mutants', 'sweep-quick-seed1.txt')
seeded = sys.argv[2] if len(sys.argv) > 2 else os.path.join(HERE, 'mutants', 'seeded-sweep-quick-seed1.txt')
metas = [json.load(open(os.path.join(d, 'meta.json'))) for d in sorted(glob.glob(os.path.join(HERE, 'seeded', '*')))]
n_kept = len(metas)
n_missed = sum(1 for m in metas if m.get('strengthening') or m.get('check', {}).get('verdict') == 'MISSED') - 1   # C16-a is not a violation
intro = open(os.path.join(HERE, 'tools', 'section11_intro.md')).read().replace('{N_KEPT}', str(n_kept)).replace('{N_MISSED}', str(n_missed))
table = subprocess.run([sys.executable, os.path.join(HERE, 'tools', 'sensitivity_table.py'), planted, seeded],
                       stdout=subprocess.PIPE, check=True).stdout.decode()
p = os.path.join(HERE, 'DESIGN.md')
s = open(p).read()
start = s.find('## 11. Sensitivity')
end = s.index('## 12. Limits')
if start < 0:
    start = end
s = s[:start] + intro.rstrip('\n') + '\n\n' + table.rstrip('\n') + '\n\n\n' + s[end:]
open(p, 'w').write(s)
print('section 11 rebuilt: %d seeded changes, %d missed on arrival' % (n_kept, n_missed))
