#!/venv/bin/python
"""Entry point: run_check.py <Cxx> [--tier quick|thorough] [--replay FILE]   (see verif/runner.py)"""
import os
import sys

sys.path.insert(0, os.path.dirname(os.path.abspath(__file__)))
from verif.runner import main  # noqa: E402

if __name__ == '__main__':
    sys.exit(main())
